#!/usr/bin/env python3
"""Validates MANIFEST.json and every evidence file against the schemas in /root/.vp (python3-vt has jsonschema)."""
import glob
import json
import sys
import jsonschema

ms = json.load(open('/root/.vp/MANIFEST.schema.json'))
es = json.load(open('/root/.vp/EVIDENCE.schema.json'))
m = json.load(open('/verif/MANIFEST.json'))
jsonschema.validate(m, ms)
bad = 0
for c in m['checks']:
    p = c['evidence_file']
    try:
        e = json.load(open(p))
        jsonschema.validate(e, es)
        assert e['property_id'] == c['property_id'], 'property id'
        assert e['level'] == c['level_claimed']['category'], 'level %s vs %s' % (e['level'], c['level_claimed']['category'])
        print('%s ok tier=%s level=%s violations=%s wall=%ss' % (c['property_id'], e['tier'], e['level'],
                                                                e.get('violations'), e['wall_s']))
    except Exception as ex:                                 # noqa
        bad += 1
        print('%s INVALID: %s' % (c['property_id'], str(ex)[:300]))
sys.exit(1 if bad else 0)
