#!/usr/bin/env python3
"""Regenerates /verif/MANIFEST.json from the table below (and validates it against the schema when
jsonschema is available)."""
import json
import os
import sys

HERE = os.path.dirname(os.path.dirname(os.path.abspath(__file__)))
SYS_NOTE = ('Trusted base: git 2.39, the in-tree mock git host (bert_e/git_host/mock.py) standing in for the real '
            'host, the harness name parser / option reader (harness/world.py), TLC. The real code is driven on '
            'real repositories; histories are those chosen by the TLA+ model (exhaustive within small constants '
            'at design level, simulated + replayed on the code), the scripted families and the fault enumeration.')
F_NOTE = ('Trusted base: TLC evaluating the oracle module, the ~50-line renderer from token structures to real '
          'inputs, stubs named in the evidence file. The quantified domain of the tier is enumerated completely.')

C16_NOTE = ('The specification contributes the plan and the design claim, not the verdict: the decisive oracle is a '
            'sentinel search. Trusted base: the git wrapper prints the URL the way git does; mock git host for the API '
            'side; scripted HTTP session for GitHub.')

CHECKS = {
 'C01': ('model_checking', 'S+Mon', 'Design level: TLC checks C01_Incl on every reachable state of spec/BertE.tla (three queue modes, stabilization cascade) within the level bound. Code level: every real job of the shared exploration (spec behaviours replayed with projection comparison, scripted families over 1-4 branch cascades incl. stabilization, hotfix and major-only, fault variants) is judged by TraceMon clause C01.incl after every single evaluation.', 'TLA+ system model (TLC) + replay on real code + TLA+ trace monitors'),
 'C02': ('fault_enumeration', 'S+Mon', 'For every job of the fault base histories: crash before every remote operation, rejection of every ref the job pushes, then recovery by a fresh instance (queue reset when it reports the queues out of order); TraceMon clauses C02.allornone / C02.incl on EVERY observation line (one per remote operation) and C02.recovery (destination trees equal to the uninterrupted run). Design level: C02_AllOrNone on BertE.tla.', 'fault enumeration on real code judged by TLA+ trace monitors; TLA+ model with Crash/RejectRef'),
 'C03': ('model_checking', 'S+Mon', 'TraceMon clause C03.green at every movement of a destination branch in queue / skip-queue modes over statuses chosen by the model and the qstatus/drift families (all five statuses, stale reports, any order); design level: C03_Green and C05_Select (SelectImpl = SelectSpec) on BertE.tla.', 'TLA+ system model + trace monitors on real executions'),
 'C04': ('model_checking', 'F', 'Exhaustive within the tier: every configuration x every standing of every user, oracle Gates!ApprovalGate evaluated by TLC, each case executed on the real check_approvals with settings from the real loader.', 'TLA+ oracle enumerated by TLC, differential against the real function'),
 'C05': ('model_checking', 'F', 'Exhaustive within the tier: every destination assignment x every status assignment of the listed cascade shapes (<= 3 PRs quick, <= 4 thorough), oracle spec/QueueOracle.tla evaluated by TLC, each case executed on the real QueueCollection.', 'TLA+ oracle enumerated by TLC, differential against the real QueueCollection'),
 'C06': ('model_checking', 'F+S', 'Function half exhaustive (all 5^k vectors, k=1..4, bypass sources, build key, two layouts of real branch objects: development and stabilization cascade) against Gates!BuildGate; history half: TraceMon clause C06.gate on every real Queued / direct-merge outcome of the system exploration.', 'TLA+ oracle (TLC) + trace monitor on real histories'),
 'C07': ('model_checking', 'F', 'Comment lists of the bounded grammar (singles in full in thorough / half of the shards in quick, pairs, triples) with constraints computed by TLC from the four implications; each executed on the real handle_comments twice (author admin or not); grants half: every per-author table of spec/Grants.tla (1..3 entries, every order, subsets of 3 keys rotated over the 7 bypass keys) loaded by the real settings loader and compared with job.author_bypass, the bypass_* helpers and active_options.', 'TLA+ constraint oracle enumerated by TLC, checked on the real reactor'),
 'C08': ('model_checking', 'S+Mon', 'TraceMon clauses C08.ff / C08.foreign / C08.destdel / C08.noloss on every remote operation of every real job, with one third-party action (create branch, push / force-push / rewind a source branch) injected immediately before each push of the fault base histories. Design level: C08_FF, C08_Foreign on BertE.tla.', 'third-party placement enumeration on real code judged by TLA+ trace monitors'),
 'C09': ('model_checking', 'F', 'Exhaustive within the tier: every branch subset (<= 4 of 11 quick, <= 6 of 12 thorough) x every tag subset x every member as destination, oracle spec/Cascade.tla evaluated by TLC, real BranchCascade in several discovery orders of branches and tags.', 'TLA+ oracle enumerated by TLC, differential against the real BranchCascade'),
 'C10': ('model_checking', 'S+Mon', 'TraceMon clauses C10.converge (third identical evaluation has no effect), C10.norepeat, C10.cmdonce on the real histories (events family repeats evaluations three times); C10.fresh compares a long-lived instance with a fresh OS process on the same world.', 'TLA+ trace monitors on real executions + fresh-process differential'),
 'C11': ('model_checking', 'F', 'Exhaustive: 196,608 cases (configuration x ticket fragment x issue x every subset of 6 fix versions x 4 target lists; non-bypassed rows also with near-miss bypass_prefixes), oracle spec/Jira.tla evaluated by TLC, each executed on the real jira_checks.', 'TLA+ oracle enumerated by TLC, differential against the real function'),
 'C12': ('model_checking', 'S+Mon', 'TraceMon clauses C12.held.* / C12.nocomment / C12.lifted on the holds family (each hold x each position, foreign source/destination names) and on every other real history; design level: C12_Held on BertE.tla.', 'TLA+ trace monitors on real executions + model'),
 'C13': ('model_checking', 'T', 'Design level: spec/Server.tla (put_job / process_task at source-line granularity, ghost pending) exhaustively model-checked by TLC: 2 hooks with liveness, 3 hooks x 2 events x 2 keys x 4 outcomes for safety. Code level: the real BertE.put_job / process_task run under a deterministic line scheduler (sys.settrace); every schedule with <= 2 (quick) / 3 (thorough) preemptions of several scenarios is executed and validated by TLC against Server\'s transition rules and C13\'s properties (spec/TraceServer.tla).', 'TLA+ model (TLC) + systematic schedule exploration of the real methods validated by a TLA+ trace spec'),
 'C14': ('model_checking', 'F', 'The full request matrix of spec/Api.tla (API paths x methods x sessions x parameter classes, forms, both webhook routes x credentials x repository identity x event types incl. GitHub issue_comment / check_suite) and the login flow (host profile x organisation x logout, then every endpoint on the same session, both hosts) are sent to the real Flask application through the test client; registered routes are compared with the specified table.', 'TLA+ table enumerated by TLC, differential against the real Flask app'),
 'C15': ('model_checking', 'S+Mon', 'TraceMon clauses C15.* (Lossy computed in TLA+ from the commit DAG and the source history) on the reset family: random orders of amend / rebase / push / rewind / destination move / manual commits, then reset or force_reset, with bystander PRs.', 'TLA+ trace monitors on real executions'),
 'C16': ('fault_enumeration', 'X', 'Fault plan from spec/Secrets.tla: (job kind x git command index x fail|hang x DEBUG|INFO x password class incl. URL-special, shell-special, non-ASCII) over the measured command list of 7 job kinds; each executed cell runs the real job on a World whose BertE carries the production URL/mask objects, with a git wrapper that fails or hangs at command k while printing the remote URL; all sinks captured (log records with exception chains, stdout/stderr, job status/details/JSON, comments) and searched for every form of the secret; 6 scripted GitHub password / App flows incl. failing responses. Quick executes a stratified seeded sample of the plan, thorough about a third of all cells.', 'TLA+ fault plan + fault injection on real jobs + sentinel search in captured sinks'),
 'C17': ('model_checking', 'F+T', '(a) every ordered list of <= 3 (quick) / 4 (thorough) workflow runs over the stated alphabet: spec/BuildStatus.tla decides whether the aggregate may be SUCCESSFUL, the real AggregatedWorkflowRuns.state is computed for each. (b) spec/StatusCache.tla model-checked (cache sizes 1, 2); every sequence of <= 3/4 host updates / webhook events / polls plus seeded walks executed on the real Bitbucket client (scripted session), the real webhook route and the real bounded cache, judged by spec/TraceCache.tla.', 'TLA+ oracle + TLA+ cache model (TLC) + trace validation of real sequences'),
 'C18': ('model_checking', 'F', 'Exhaustive over the bounded grammar of spec/Names.tla (22k names) + round trips through the real name builders.', 'TLA+ grammar enumerated by TLC, differential against branch_factory'),
 'C19': ('model_checking', 'S+Mon', 'TraceMon clauses C19.* after every evaluation of the events family (PR / child PR / commit events in random order and multiplicity, both always_create_* settings, decline or merge) and of all other histories; design level C19_Children.', 'TLA+ trace monitors on real executions + model'),
 'C20': ('model_checking', 'S+Mon', 'TraceMon clauses C20.* on the admin family (create / delete branch over names older, between, newer, existing, archived, with branch_from, 0-2 queued PRs incl. hotfix queue, queues on/off; rebuild / delete / force-merge queues).', 'TLA+ trace monitors on real executions'),
}
NOT_YET = {}


def main():
    props = [json.loads(l)['id'] for l in open(os.path.join(HERE, 'properties.jsonl'))]
    checks = []
    for p in props:
        if p not in CHECKS or not enabled(p):
            continue
        level, group, text, tech = CHECKS[p]
        checks.append(dict(
            property_id=p, quick_cmd='bin/check %s --tier quick' % p,
            thorough_cmd='bin/check %s --tier thorough' % p,
            evidence_file='/verif/evidence/%s.json' % p,
            replay_cmd_template='bin/check %s --replay {path}' % p,
            engine='sys' if 'S' in group else ('threads' if group == 'T' else 'secrets' if group == 'X' else 'oracle'),
            level_claimed=dict(category=level, text=text, design_ref='DESIGN.md section 7 (%s) and section 11' % p),
            level_note=SYS_NOTE if 'S' in group else (C16_NOTE if group == 'X' else F_NOTE), technique=tech))
    na = [dict(property_id=p, reason=NOT_YET.get(p, 'check not built yet')) for p in props
          if p not in CHECKS or not enabled(p)]
    m = dict(
        version=1,
        setup_cmd='true',
        hooks=dict(guard='BERT_E_VERIF',
                   enable='no source hooks are needed: the harness installs its interposers on the imported modules '
                          '(bert_e.lib.git.cmd, mock host methods) inside the checking process',
                   baseline_off_cmd='cd /repo && /venv/bin/python -m pytest -ra -q -p no:cacheprovider --timeout=900 '
                                    '--continue-on-collection-errors',
                   source_commits=[], add_only=True),
        engines=[dict(name='sys', path='harness/syscheck.py + spec/BertE.tla + spec/TraceMon.tla + spec/Monitors.tla',
                      serves_properties=[p for p in props if p in CHECKS and 'S' in CHECKS[p][1] and enabled(p)],
                      kind_free_text='TLA+ system machine checked by TLC; behaviours replayed on the real code; '
                                     'observation streams of real executions judged by TLA+ monitors'),
                 dict(name='oracle', path='harness/checks/*.py + spec/{Gates,QueueOracle,Cascade,Jira,Names,Reactor}.tla',
                      serves_properties=[p for p in props if p in CHECKS and CHECKS[p][1].startswith('F') and enabled(p)],
                      kind_free_text='pure decision functions: TLA+ oracle enumerated/evaluated by TLC over the whole '
                                     'quantified domain, every case executed on the real function'),
                 dict(name='secrets', path='harness/checks/c16.py + spec/Secrets.tla', serves_properties=['C16'],
                      kind_free_text='fault enumeration from a TLA+ plan; verdict by sentinel search (TLA+ cannot '
                                     'express substring containment, DESIGN.md section 8)'),
                 dict(name='threads', path='harness/linesched.py + spec/Server.tla + spec/TraceServer.tla',
                      serves_properties=['C13'],
                      kind_free_text='line-granularity scheduler over the real dispatcher methods; TLA+ model + trace spec')],
        checks=checks, not_applicable=na,
        notes='fix: commits in /repo: e99351e (C03), 5e23f97 (C05/C03), 7551276 (C02); see known_findings.json')
    path = os.path.join(HERE, 'MANIFEST.json')
    json.dump(m, open(path, 'w'), indent=1)
    try:
        import jsonschema
        jsonschema.validate(m, json.load(open('/root/.vp/MANIFEST.schema.json')))
        print('MANIFEST.json written and valid: %d checks, %d not applicable' % (len(checks), len(na)))
    except ImportError:
        print('MANIFEST.json written (jsonschema not available: not validated)')


def enabled(p):
    return p not in DISABLED


DISABLED = set(sys.argv[1:])

if __name__ == '__main__':
    main()
