"""C17 - CI results are aggregated soundly and a green verdict is never downgraded.

(a) spec/BuildStatus.tla: for every ordered list of workflow runs of the alphabet TLC decides whether the
    aggregate MAY be SUCCESSFUL (soundness clause of the statement); the real AggregatedWorkflowRuns.state
    is computed for every list.
(b) spec/StatusCache.tla is model-checked (cache sizes 1 and 2); every sequence of host updates, webhook
    status events and polls up to a length (plus seeded random walks) is executed on the REAL
    bitbucket.Repository.get_build_status (scripted HTTP session), the real webhook handler (through the Flask
    test client) and the real bounded BUILD_STATUS_CACHE, and judged by spec/TraceCache.tla.
"""
import itertools
import json
import multiprocessing as mp
import os
import random
import shutil
import sys
import time
from types import SimpleNamespace

from .. import tlc, evidence, explore

REPO = explore.REPO
EVENTS = ['push', 'pull_request', 'workflow_dispatch']
SC = [('completed', 'success'), ('completed', 'failure'), ('completed', 'cancelled'), ('in_progress', None),
      ('queued', None), ('pending', None)]


def run_of(x):
    st, con = SC[(x // 3) % 6]
    b = (x // 36) % 2 + 1
    return {'id': x, 'head_sha': 'd6fde92930d4715a2b49857d24b940956b26d2d3', 'head_branch': 'q/%d' % b,
            'status': st, 'event': EVENTS[x % 3], 'workflow_id': (x // 18) % 2 + 1, 'check_suite_id': x,
            'conclusion': con,
            'repository': {'full_name': 'octo-org/Hello-World', 'owner': {'login': 'octo-org'}, 'name': 'Hello-World'}}


def _agg_oracle(args):
    scratch, n, shard, nshard = args
    cfg = os.path.join(scratch, 'bs_%d_%d.cfg' % (n, shard))
    open(cfg, 'w').write('SPECIFICATION Spec\n')
    out = os.path.join(scratch, 'bs_%d_%d.ndjson' % (n, shard))
    r = tlc.run_tlc('BuildStatus.tla', cfg, scratch, workers=1,
                    env={'OUT_FILE': out, 'NRUNS': str(n), 'SHARD': str(shard), 'NSHARD': str(nshard)}, timeout=7200)
    if not os.path.exists(out):
        raise tlc.TLCError('BuildStatus oracle produced nothing:\n' + r['out'][-3000:])
    return out


def _agg_worker(path):
    if REPO not in sys.path:
        sys.path.insert(0, REPO)
    import logging
    logging.disable(logging.CRITICAL)
    from bert_e.git_host.github import AggregatedWorkflowRuns
    n = 0
    bad = []
    kinds = set()
    with open(path) as f:
        for ln in f:
            if not ln.strip():
                continue
            line = json.loads(ln)
            pre = []
            code = line['prefix']
            for _ in range(line['n'] - 1):
                pre.append(code % 72)
                code //= 72
            for x, may in enumerate(line['res']):
                codes = pre + [x]
                runs = [run_of(c) for c in codes]
                st = AggregatedWorkflowRuns(None, _validate=False, workflow_runs=runs, total_count=len(runs)).state
                n += 1
                kinds.add((st, may))
                if st == 'SUCCESSFUL' and not may:
                    bad.append(dict(runs=[dict(event=r['event'], status=r['status'], conclusion=r['conclusion'],
                                               workflow_id=r['workflow_id'], head_branch=r['head_branch'])
                                          for r in runs], state=st))
    return n, bad[:20], len(bad), sorted(kinds)


# ------------------------------------------------------------------------------------------ (b)
COMMITS = ['c1', 'c2']
KEYS = ['k1', 'k2']
SHA = {'c1': 'a' * 40, 'c2': 'b' * 40}


def alphabet(states):
    acts = []
    for c in COMMITS:
        for k in KEYS:
            for s in states:
                acts.append(('hostset', c, k, s))
                acts.append(('webhook', c, k, s))
            acts.append(('poll', c, k, ''))
    return acts


def _cache_worker(args):
    if len(args) == 4 and args[3] == 'github':
        return _cache_worker_github(args[:3])
    seqs, size, tid0 = args[:3]
    if REPO not in sys.path:
        sys.path.insert(0, REPO)
    import logging
    logging.disable(logging.CRITICAL)
    os.environ.update(WEBHOOK_LOGIN='hooklogin', WEBHOOK_PWD='hookpwd', BERT_E_CLIENT_ID='cid',
                      BERT_E_CLIENT_SECRET='csecret')
    import base64
    from collections import deque
    from queue import Queue
    from requests.exceptions import HTTPError
    from bert_e import bert_e as bemod, server
    from bert_e.git_host import bitbucket, cache
    from bert_e.lib.settings_dict import SettingsDict
    host = {}

    class Resp:
        def __init__(self, data):
            self.data = data
            self.status_code = 200 if data is not None else 404

        def raise_for_status(self):
            if self.data is None:
                raise HTTPError(response=self)

        def json(self):
            return self.data

    class Client:
        login = 'robot'

        def get(self, url, **kw):
            # .../commit/<revision>/statuses/build/<key>
            parts = url.split('/')
            rev, key = parts[-4], parts[-1]
            st = host.get((rev, key))
            if st is None:
                return Resp(None)
            return Resp({'state': st, 'key': key, 'url': 'http://ci/1', 'description': 'd'})

    client = Client()
    repo = bitbucket.Repository(client, owner='test_owner', repo_slug='test_repo')

    class MockBertE(bemod.BertE):
        def __init__(self):
            self.client = client
            self.project_repo = SimpleNamespace(owner='test_owner', slug='test_repo', full_name='test_owner/test_repo')
            self.settings = SettingsDict(dict(repository_host='bitbucket', repository_owner='o', repository_slug='s',
                                              build_key='k1', pull_request_base_url='u{pr_id}',
                                              commit_base_url='c{commit_id}', admins=[], organization='',
                                              frontend_url=''))
            self.git_repo = SimpleNamespace()
            self.task_queue = Queue()
            self.tasks_done = deque(maxlen=10)
            self.status = {}
    b = MockBertE()
    app = server.setup_server(b)
    c = app.test_client()
    auth = {'Authorization': 'Basic ' + base64.b64encode(b'hooklogin:hookpwd').decode()}
    out = []
    for j, seq in enumerate(seqs):
        host.clear()
        cache.BUILD_STATUS_CACHE.clear()
        for k in KEYS:
            cache.BUILD_STATUS_CACHE[k].size = size
        n = 0
        for (ev, cm, k, s) in seq:
            n += 1
            if ev == 'hostset':
                host[(SHA[cm], k)] = s
                ans = s
            elif ev == 'webhook':
                data = {'repository': {'owner': {'username': 'test_owner'}, 'name': 'test_repo'},
                        'commit_status': {'state': s, 'key': k, 'url': 'http://ci/1', 'description': 'd',
                                          'links': {'commit': {'href': 'https://api/x/commit/' + SHA[cm]}}}}
                r = c.post('/bitbucket', data=json.dumps(data),
                           headers=dict({'X-Event-Key': 'repo:commit_status_updated'}, **auth))
                assert r.status_code == 200, r.status_code
                while b.task_queue.queue:
                    b.task_queue.get()
                    b.task_queue.task_done()
                ans = s
            else:
                ans = repo.get_build_status(SHA[cm], k)
            out.append(dict(tid=tid0 + j, n=n, ev=ev, c=cm, k=k, s=ans))
    return out


def _cache_worker_github(args):
    """The same sequences on the GitHub client: get_build_status -> get_commit_status (combined status of the
    commit + workflow runs) through a scripted client, status events through the /github webhook route."""
    seqs, size, tid0 = args
    if REPO not in sys.path:
        sys.path.insert(0, REPO)
    import logging
    logging.disable(logging.CRITICAL)
    os.environ.update(WEBHOOK_LOGIN='hooklogin', WEBHOOK_PWD='hookpwd', BERT_E_CLIENT_ID='cid',
                      BERT_E_CLIENT_SECRET='csecret')
    import base64
    from collections import deque
    from queue import Queue
    from bert_e import bert_e as bemod, server
    from bert_e.git_host import github, cache
    from bert_e.lib.settings_dict import SettingsDict
    host = {}
    GH = {'SUCCESSFUL': 'success', 'FAILED': 'failure', 'INPROGRESS': 'pending'}
    repo_doc = {'name': 'test_repo', 'full_name': 'test_owner/test_repo', 'owner': {'id': 1, 'login': 'test_owner'}}

    class Client:
        login = 'robot'

        def get(self, url, params=None, headers=None, **kw):
            if '/actions/runs' in url:
                return {'total_count': 0, 'workflow_runs': []}
            ref = url.split('/commits/')[1].split('/')[0]
            sts = [{'state': GH[s], 'target_url': 'http://ci/1', 'description': 'd', 'context': k}
                   for (r, k), s in sorted(host.items()) if r == ref]
            return {'state': 'x', 'sha': ref, 'repository': repo_doc, 'statuses': sts}

    client = Client()
    repo = github.Repository(client, _validate=False, **repo_doc)

    class MockBertE(bemod.BertE):
        def __init__(self):
            self.client = client
            self.project_repo = SimpleNamespace(owner='test_owner', slug='test_repo', full_name='test_owner/test_repo')
            self.settings = SettingsDict(dict(repository_host='github', repository_owner='o', repository_slug='s',
                                              build_key='k1', pull_request_base_url='u{pr_id}',
                                              commit_base_url='c{commit_id}', admins=[], organization='',
                                              frontend_url=''))
            self.git_repo = SimpleNamespace()
            self.task_queue = Queue()
            self.tasks_done = deque(maxlen=10)
            self.status = {}
    b = MockBertE()
    app = server.setup_server(b)
    c = app.test_client()
    auth = {'Authorization': 'Basic ' + base64.b64encode(b'hooklogin:hookpwd').decode()}
    out = []
    for j, seq in enumerate(seqs):
        host.clear()
        cache.BUILD_STATUS_CACHE.clear()
        for k in KEYS:
            cache.BUILD_STATUS_CACHE[k].size = size
        n = 0
        for (ev, cm, k, s) in seq:
            n += 1
            if ev == 'hostset':
                host[(SHA[cm], k)] = s
                ans = s
            elif ev == 'webhook':
                data = {'sha': SHA[cm], 'state': GH[s], 'context': k, 'description': 'd', 'target_url': 'http://ci/1',
                        'repository': repo_doc}
                r = c.post('/github', data=json.dumps(data), headers=dict({'X-Github-Event': 'status'}, **auth))
                assert r.status_code in (200, 202), r.status_code
                while b.task_queue.queue:
                    b.task_queue.get()
                    b.task_queue.task_done()
                ans = s
            else:
                ans = repo.get_build_status(SHA[cm], k)
            out.append(dict(tid=tid0 + j, n=n, ev=ev, c=cm, k=k, s=ans))
    return out


def _cache_validate(args):
    path, scratch, size = args[:3]
    gh = len(args) > 3 and args[3] == 'github'
    vio = path + '.viol.json'
    cfg = path + '.cfg'
    open(cfg, 'w').write('SPECIFICATION TSpec\nPOSTCONDITION TraceAccepted\nCHECK_DEADLOCK FALSE\nCONSTANTS\n'
                         ' Commits = {"c1", "c2"}\n BuildKeys = {"k1", "k2"}\n States = {"SUCCESSFUL", "FAILED"}\n'
                         ' CacheSize = %d\n MaxSteps = 0\n PollAllKeys = %s\n GuardedStore = TRUE\n'
                         % (size, 'TRUE' if gh else 'FALSE'))
    r = tlc.run_tlc('TraceCache.tla', cfg, scratch, workers=1, env={'TRACE_FILE': path, 'VIOL_FILE': vio}, timeout=3600)
    if not r['ok'] or not os.path.exists(vio):
        return dict(err=r['out'][-2500:], viol=[], div=[], n=0)
    d = json.load(open(vio))
    return dict(err=None, viol=d['viol'], div=d['div'], n=d['n'])


def check(tier, seed):
    t0 = time.time()
    scratch = explore.make_scratch('c17')
    try:
        ctx = mp.get_context('fork')
        # ---- (a)
        jobs = [(scratch, 1, 0, 1), (scratch, 2, 0, 1)] + [(scratch, 3, k, 8) for k in range(8)]
        if tier == 'thorough':
            jobs += [(scratch, 4, k, 64) for k in range(64)]
        with ctx.Pool(16) as pool:
            files = pool.map(_agg_oracle, jobs, chunksize=1)
        with ctx.Pool(16) as pool:
            ars = pool.map(_agg_worker, files, chunksize=1)
        if REPO not in sys.path:
            sys.path.insert(0, REPO)
        from bert_e.git_host.github import AggregatedWorkflowRuns
        empty_state = AggregatedWorkflowRuns(None, _validate=False, workflow_runs=[], total_count=0).state
        # ---- (b) design level
        mc = []
        for cfgname in ('StatusCache.cfg', 'StatusCache.2.cfg', 'StatusCache.ghfix.cfg'):
            r = tlc.run_tlc('StatusCache.tla', cfgname, scratch, workers=16, timeout=1800)
            mc.append(dict(cfg=cfgname, ok=r['ok'], distinct=r['distinct'], states=r['states'], violated=r['violated']))
            if not r['ok']:
                print('MODEL-LEAD: TLC reports %s on %s' % (r['violated'], cfgname))
        # ---- (b) real sequences
        rng = random.Random(seed)
        acts = alphabet(['SUCCESSFUL', 'FAILED'])
        maxlen = 3 if tier == 'quick' else 4
        seqs = []
        for L in range(1, maxlen + 1):
            seqs += list(itertools.product(acts, repeat=L))
        # always: a green seen through one channel, the host turning red, a poll of ANOTHER key of the same commit
        for cm in COMMITS:
            for k in KEYS:
                for k2 in KEYS:
                    for first in ('webhook', 'poll'):
                        seqs.append((('hostset', cm, k, 'SUCCESSFUL'), (first, cm, k, 'SUCCESSFUL' if first == 'webhook' else ''),
                                     ('hostset', cm, k, 'FAILED'), ('poll', cm, k2, ''), ('poll', cm, k, '')))
        nwalk = 3000 if tier == 'quick' else 60000
        for _ in range(nwalk):
            seqs.append(tuple(rng.choice(acts) for _ in range(rng.randrange(5, 9))))
        nseq = len(seqs)
        work = []
        chunk = max(1, len(seqs) // 32 + 1)
        tid = 0
        for hostkind in ('bitbucket', 'github'):
            for size in (1, 2):
                for lo in range(0, len(seqs), chunk):
                    work.append((seqs[lo:lo + chunk], size, tid, hostkind))
                    tid += chunk
        with ctx.Pool(16) as pool:
            outs = pool.map(_cache_worker, work, chunksize=1)
        vjobs = []
        for j, (w, o) in enumerate(zip(work, outs)):
            p = os.path.join(scratch, 'cache_%d.ndjson' % j)
            with open(p, 'w') as f:
                for e in o:
                    f.write(json.dumps(e) + '\n')
            vjobs.append((p, scratch, w[1], w[3]))
        with ctx.Pool(16) as pool:
            vr = pool.map(_cache_validate, vjobs, chunksize=1)
        for v in vr:
            if v['err']:
                print('MACHINERY FAILURE: TraceCache did not accept a stream:\n' + v['err'])
                return 2
        seqof = {}
        for w in work:
            for j, s in enumerate(w[0]):
                seqof[w[2] + j] = (s, w[1], w[3])
    finally:
        shutil.rmtree(scratch, ignore_errors=True)
    rdir = os.path.join(explore.VERIF, 'replays')
    os.makedirs(rdir, exist_ok=True)
    viol = []
    nagg = sum(r[0] for r in ars)
    abad = [b for r in ars for b in r[1]]
    nabad = sum(r[2] for r in ars)
    for i, b in enumerate(abad[:50]):
        p = os.path.join(rdir, 'C17_agg_%d.json' % i)
        json.dump(b, open(p, 'w'), indent=1)
        viol.append(dict(sig=dict(clause='C17.aggregate', runs=json.dumps(b['runs'])[:500]), replay=p))
    if empty_state == 'SUCCESSFUL':
        viol.append(dict(sig=dict(clause='C17.aggregate', runs='[]'), replay=''))
    cviol = [tuple(x) for v in vr for x in v['viol']]
    cdiv = [tuple(x) for v in vr for x in v['div']]
    seen = set()
    for (tid_, n_, clause) in cviol:
        s, size, hostkind = seqof[tid_]
        key = (clause, s[:n_], size, hostkind)
        if key in seen:
            continue
        seen.add(key)
        p = os.path.join(rdir, 'C17_cache_%d.json' % len(seen))
        json.dump(dict(clause=clause, cache_size=size, sequence=s, at=n_), open(p, 'w'), indent=1)
        viol.append(dict(sig=dict(clause=clause, cache_size=size, host=hostkind,
                                  sequence=' '.join('%s(%s,%s,%s)' % a for a in s[:n_])),
                         replay=p))
    new = evidence.report('C17', viol, rdir)
    if cdiv:
        print('DIVERGENCE: %d poll answers differ from StatusCache.tla (conformance, not a verdict)' % len(cdiv))
    kinds = set()
    for r in ars:
        kinds |= {tuple(k) for k in r[3]}
    evidence.write('C17', tier, seed, 'model_checking', dict(
        states=sum(m['distinct'] for m in mc) + nagg, transitions=sum(m['states'] for m in mc) + nagg,
        traces_validated_against_impl=4 * nseq + nagg,
        samples=[dict(runs=[{k: run_of(5)[k] for k in ('event', 'status', 'conclusion', 'workflow_id', 'head_branch')}],
                      may_be_successful=1),
                 dict(sequence=[list(a) for a in seqs[len(acts) + 7]], cache_sizes=[1, 2])],
        evaluations=nagg + 4 * nseq, distinct_nontrivial=len(kinds) + 2,
        rule='(a) every ordered list of <= %d workflow runs over 72 run values (3 events x 6 status/conclusion pairs x 2 '
             'workflow ids x 2 branches) and the empty list; (b) every sequence of <= %d actions over 20 actions (host '
             'update / webhook / poll x 2 commits x 2 keys x {SUCCESSFUL, FAILED}) plus %d seeded walks of length 5-8, '
             'cache sizes 1 and 2; distinct = (state, may-succeed) classes' % (4 if tier == 'thorough' else 3, maxlen, nwalk),
        aggregate_lists=nagg, cache_sequences=4 * nseq, model_checking=mc, conformance_divergences=len(cdiv),
        disagreements=nabad + len(cviol), exhaustive=True,
        explanation='BuildStatus.tla / StatusCache.tla evaluated by TLC; TraceCache.tla judges the real sequences'),
        ['GitHub HTTP layer not driven: AggregatedWorkflowRuns is built from run documents as the unit tests do',
         'the cache half runs the Bitbucket client (scripted HTTP session, /bitbucket route) and the GitHub client '
         '(get_build_status -> get_commit_status through a scripted client, /github status events); workflow runs '
         'are empty in the cache half',
         'the stated alphabet has 2 workflow ids (with 3 ids the consecutive groupby can split a branch - DESIGN.md L7)'],
        time.time() - t0, new)
    print('C17: %d run lists aggregated (%d unsound), %d cache sequences on the real client/webhook (%d violations, %d divergences)'
          % (nagg, nabad, 4 * nseq, len(cviol), len(cdiv)))
    return 1 if new else 0
