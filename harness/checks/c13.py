"""C13 - the server never loses an event and its worker never dies.

Design level: spec/Server.tla (put_job / process_task at source-line granularity, ghost `pending`)
model-checked exhaustively by TLC (NoLostEvent, MarkerCleared, DoneRecorded, EventuallyStarted).
Code level: the REAL BertE.put_job / BertE.process_task run under the deterministic line scheduler
(harness/linesched.py): every schedule with a bounded number of preemptions is executed; each execution's
events are validated by TLC against Server's transition rules and C13's properties (spec/TraceServer.tla).
"""
import collections
import json
import multiprocessing as mp
import os
import shutil
import sys
import time
from types import SimpleNamespace

from .. import tlc, evidence, explore as ex_mod

REPO = ex_mod.REPO

# scenarios: hooks -> list of keys they deliver, in order
SCENARIOS = {
    'quick': [
        {'h1': ['a', 'a'], 'h2': ['a', 'b']},
        {'h1': ['a'], 'h2': ['a']},
        {'h1': ['a', 'b'], 'h2': ['b', 'a']},
        {'h1': ['a'], 'h2': ['b'], 'h3': ['a']},
    ],
    'thorough': [
        {'h1': ['a', 'a'], 'h2': ['a', 'b']},
        {'h1': ['a'], 'h2': ['a']},
        {'h1': ['a', 'b'], 'h2': ['b', 'a']},
        {'h1': ['a', 'a'], 'h2': ['a', 'a']},
        {'h1': ['a'], 'h2': ['b'], 'h3': ['a']},
        {'h1': ['a', 'b'], 'h2': ['a'], 'h3': ['b', 'a']},
        {'h1': ['a', 'a'], 'h2': ['b', 'a'], 'h3': ['a', 'b']},
    ],
}
OUTCOMES = ['silent', 'template', 'internal', 'arbitrary']


def _make_world_factory(scn, rot):
    if REPO not in sys.path:
        sys.path.insert(0, REPO)
    import logging
    logging.disable(logging.CRITICAL)
    from collections import deque
    from queue import Queue
    from bert_e.bert_e import BertE
    from bert_e import exceptions as exc
    from bert_e.job import PullRequestJob, CommitJob
    from bert_e.lib.settings_dict import SettingsDict

    class Tmpl(exc.TemplateException):
        pass

    def mkexc(o):
        if o == 'silent':
            return exc.NothingToDo()
        if o == 'template':
            return Tmpl.__new__(Tmpl)
        if o == 'internal':
            return exc.InternalException('internal')
        return ValueError('boom')

    class TB(BertE):
        def __init__(self):
            self.task_queue = Queue()
            self.tasks_done = deque(maxlen=1000)
            self.status = {}
            self.settings = SettingsDict({'pull_request_base_url': 'u{pr_id}', 'commit_base_url': 'c{commit_id}'})
            self.project_repo = SimpleNamespace(full_name='o/s')
            self.git_repo = object()

        def process(self, job):
            raise job.vexc

    codes = (BertE.put_job.__code__, BertE.process_task.__code__)
    pt = BertE.process_task.__code__
    first_pt = min(l for (_, _, l) in pt.co_lines() if l and l > pt.co_firstlineno)

    def make():
        tb = TB()
        hooks = collections.OrderedDict()
        cnt = rot
        for h, keys in sorted(scn.items()):
            jobs = []
            for k in keys:
                if k == 'a':
                    job = PullRequestJob(bert_e=tb, pull_request=SimpleNamespace(id=1))
                else:
                    job = CommitJob(bert_e=tb, commit='deadbeef0000')
                job.vkey = k
                job.vexc = mkexc(OUTCOMES[cnt % 4])
                cnt += 1
                jobs.append((k, job))
            hooks[h] = jobs
        return tb, hooks, codes, first_pt
    return make


def _explore_worker(args):
    scn, rot, bound, limit, tid0 = args
    from .. import linesched
    make = _make_world_factory(scn, rot)
    traces = []
    stats = dict(execs=0, steps=0, kinds=collections.Counter())

    def on_exec(events, choices):
        stats['execs'] += 1
        stats['steps'] += len(choices)
        for e in events:
            stats['kinds'][e['ev']] += 1
        traces.append(events)
    try:
        linesched.explore(make, bound, limit, on_exec)
        err = None
    except Exception as e:                                          # noqa
        import traceback
        err = traceback.format_exc()
    out = []
    for j, ev in enumerate(traces):
        for e in ev:
            e['tid'] = tid0 + j
        out.append(ev)
    return dict(scn=scn, rot=rot, traces=out, stats=dict(execs=stats['execs'], steps=stats['steps'],
                                                        kinds=dict(stats['kinds'])), err=err)


def apalache_obligations(scratch):
    """Unbounded-in-events argument for the design: an inductive invariant of Server.tla (spec/MC_Server.tla)
    discharged by Apalache - Init => IndInv, IndInv /\\ Next => IndInv', IndInv => NoLostEvent /\\ MarkerCleared - for 3
    request threads, 2 keys, ANY number of remaining events and any queue content up to length 4.  Not load-bearing for
    the verdict (that comes from the real executions); a failed obligation is reported as a design-level lead."""
    import subprocess
    obl = [('Init => IndInv', ['--init=Init', '--inv=IndInv', '--length=0']),
           ("IndInv /\\ Next => IndInv'", ['--init=IndInit', '--inv=IndInv', '--length=1']),
           ('IndInv => NoLostEvent /\\ MarkerCleared', ['--init=IndInit', '--inv=Safety', '--length=0'])]
    res = []
    for name, args in obl:
        try:
            p = subprocess.run(['apalache-mc', 'check'] + args + ['--out-dir=' + os.path.join(scratch, 'apalache'),
                                                                  'MC_Server.tla'],
                               cwd=tlc.SPEC_DIR, stdout=subprocess.PIPE, stderr=subprocess.STDOUT,
                               universal_newlines=True, timeout=600,
                               env=dict(os.environ, TMPDIR=scratch, JVM_ARGS='-Djava.io.tmpdir=' + scratch))
            ok = 'The outcome is: NoError' in p.stdout
            res.append(dict(obligation=name, discharged=ok, tail='' if ok else p.stdout[-400:]))
        except Exception as e:                                  # noqa
            res.append(dict(obligation=name, discharged=False, tail='apalache did not run: %r' % (e,)))
    return res


def launcher_test():
    """The REAL worker loop of the server (bert_e.server.setup_bert_e starts it in a daemon thread) fed with one job
    per kind of outcome - including exceptions with an empty message, bare assertion failures, KeyError() - followed by
    a probe job: the worker must still be alive, every job must be in tasks_done with a status, the marker cleared.
    Returns a list of problems (empty = fine)."""
    import threading
    import time as _t
    from collections import deque
    from queue import Queue
    from unittest import mock
    if REPO not in sys.path:
        sys.path.insert(0, REPO)
    from bert_e import server, exceptions as exc
    from bert_e.bert_e import BertE
    from bert_e.job import PullRequestJob
    from bert_e.lib.settings_dict import SettingsDict

    class Tmpl(exc.TemplateException):
        pass

    def raiser(e):
        def f():
            raise e
        return f

    def bare_assert():
        assert False

    outcomes = [('silent', raiser(exc.NothingToDo())), ('silent+text', raiser(exc.NothingToDo('x'))),
                ('template', raiser(Tmpl.__new__(Tmpl))), ('internal', raiser(exc.InternalException('i'))),
                ('jobfailure', raiser(exc.JobFailure('failed'))), ('arbitrary', raiser(ValueError('boom'))),
                ('arbitrary-empty', raiser(ValueError())), ('keyerror-empty', raiser(KeyError())),
                ('assert', bare_assert), ('stopiteration', raiser(StopIteration())),
                ('multi-line', raiser(RuntimeError('line1\nline2'))), ('unicode', raiser(RuntimeError('\u00e9\u65e5'))),
                ('returns', lambda: None)]

    class TB(BertE):
        def __init__(self, settings):
            self.task_queue = Queue()
            self.tasks_done = deque(maxlen=1000)
            self.status = {}
            self.settings = SettingsDict({'pull_request_base_url': 'u{pr_id}', 'commit_base_url': 'c{commit_id}',
                                          'repository_host': 'mock', 'repository_owner': 'o', 'repository_slug': 's'})
            self.project_repo = SimpleNamespace(full_name='o/s')
            self.git_repo = object()

        def process(self, job):
            return job.vfn()

    problems = []
    before = {t.ident for t in threading.enumerate()}
    with mock.patch.object(server, 'BertE', TB), \
            mock.patch.object(server, 'setup_settings', lambda f: {'repository_host': 'mock', 'repository_owner': 'o',
                                                                   'repository_slug': 's'}), \
            mock.patch.object(server.logging, 'basicConfig', lambda **kw: None):
        b = server.setup_bert_e('none.yml', False)
    workers = [t for t in threading.enumerate() if t.ident not in before]
    if len(workers) != 1:
        return ['setup_bert_e did not start exactly one worker thread (%d)' % len(workers)]
    wt = workers[0]
    n = 0
    for name, fn in outcomes:
        for probe in (False, True):
            n += 1
            job = PullRequestJob(bert_e=b, pull_request=SimpleNamespace(id=n))
            job.vfn = (lambda: None) if probe else fn
            b.put_job(job)
            t0 = _t.time()
            while not job.done and _t.time() - t0 < 3.0 and wt.is_alive():
                _t.sleep(0.005)
            if not wt.is_alive():
                problems.append('worker thread died after a job whose outcome was `%s`' % name)
                return problems
            if not job.done:
                problems.append('job after outcome `%s` was never finished' % name)
                return problems
            _t.sleep(0.01)
            if 'current job' in b.status:
                problems.append('current-job marker not cleared after outcome `%s`' % name)
            if job not in b.tasks_done:
                problems.append('job with outcome `%s` not recorded in tasks_done' % name)
    return problems


def _validate(args):
    path, scratch = args
    vio = path + '.viol.json'
    r = tlc.run_tlc('TraceServer.tla', 'TraceServer.cfg', scratch, workers=1,
                    env={'TRACE_FILE': path, 'VIOL_FILE': vio}, timeout=3600)
    if not r['ok'] or not os.path.exists(vio):
        return dict(err=r['out'][-2500:], viol=[], div=[], n=0)
    d = json.load(open(vio))
    return dict(err=None, viol=d['viol'], div=d['div'], n=d['n'])


def check(tier, seed):
    t0 = time.time()
    scratch = ex_mod.make_scratch('c13')
    try:
        cfgs = ['Server.cfg'] + (['Server.t.cfg'] if tier == 'thorough' else ['Server.t.cfg'])
        mc = []
        for c in cfgs:
            r = tlc.run_tlc('Server.tla', c, scratch, workers=16, timeout=1800)
            mc.append(dict(cfg=c, ok=r['ok'], states=r['states'], distinct=r['distinct'], depth=r['depth'],
                           violated=r['violated']))
            if not r['ok']:
                print('MODEL-LEAD: TLC reports %s on %s' % (r['violated'], c))
        apa = apalache_obligations(scratch)
        for a in apa:
            if not a['discharged']:
                print('MODEL-LEAD: Apalache did not discharge `%s` (%s)' % (a['obligation'], a['tail'][-200:]))
        bound, limit = (2, 700) if tier == 'quick' else (3, 6000)
        jobs = []
        tid0 = 0
        for si, scn in enumerate(SCENARIOS[tier]):
            for rot in range(4 if tier == 'thorough' else 2):
                jobs.append((scn, (rot + seed) % 4, bound, limit, tid0))
                tid0 += 100000
        ctx = mp.get_context('fork')
        with ctx.Pool(16, maxtasksperchild=1) as pool:
            outs = pool.map(_explore_worker, jobs, chunksize=1)
        errs = [o['err'] for o in outs if o['err']]
        if errs:
            print('MACHINERY FAILURE in the line scheduler:\n' + errs[0][-2000:])
            return 2
        files = []
        alltr = {}
        for j, o in enumerate(outs):
            p = os.path.join(scratch, 'srv_%d.ndjson' % j)
            with open(p, 'w') as f:
                for ev in o['traces']:
                    for e in ev:
                        f.write(json.dumps(e) + '\n')
                    if ev:
                        alltr[ev[0]['tid']] = (o['scn'], o['rot'], ev)
            files.append(p)
        with ctx.Pool(16) as pool:
            vr = pool.map(_validate, [(p, scratch) for p in files if os.path.getsize(p) > 0])
        for v in vr:
            if v['err']:
                print('MACHINERY FAILURE: TraceServer did not accept a stream:\n' + v['err'])
                return 2
    finally:
        shutil.rmtree(scratch, ignore_errors=True)
    viol = [tuple(x) for v in vr for x in v['viol']]
    div = [tuple(x) for v in vr for x in v['div']]
    rdir = os.path.join(ex_mod.VERIF, 'replays')
    os.makedirs(rdir, exist_ok=True)
    vs = []
    import logging
    logging.disable(logging.CRITICAL)
    lprobs = launcher_test()
    for i, pb in enumerate(lprobs):
        p = os.path.join(rdir, 'C13_launcher_%d.json' % i)
        json.dump(dict(problem=pb), open(p, 'w'))
        vs.append(dict(sig=dict(clause='C13.worker_died' if 'died' in pb or 'never' in pb else 'C13.launcher',
                                problem=pb), replay=p))
    seen = set()
    for (tid, n, clause) in viol:
        scn, rot, ev = alltr[tid]
        key = (clause, json.dumps(scn, sort_keys=True))
        if key in seen:
            continue
        seen.add(key)
        p = os.path.join(rdir, 'C13_%d.json' % len(vs))
        json.dump(dict(clause=clause, scenario=scn, outcome_rotation=rot, events=ev, at=n), open(p, 'w'), indent=1)
        vs.append(dict(sig=dict(clause=clause, scenario=json.dumps(scn, sort_keys=True),
                                schedule=' '.join('%s%s' % (e['ev'], ('(' + e['h'] + e['k'] + ')') if e['h'] or e['k'] else '')
                                                  for e in ev)[:400]), replay=p))
    new = evidence.report('C13', vs, rdir)
    if div:
        tid, n, what = div[0]
        print('DIVERGENCE: %d events of real executions do not follow Server.tla (conformance, not a verdict); first: %s in %s'
              % (len(div), what, json.dumps(alltr[tid][0])))
    execs = sum(o['stats']['execs'] for o in outs)
    steps = sum(o['stats']['steps'] for o in outs)
    kinds = collections.Counter()
    for o in outs:
        kinds.update(o['stats']['kinds'])
    sample = next(iter(alltr.values()))
    evidence.write('C13', tier, seed, 'model_checking', dict(
        states=sum(m['distinct'] for m in mc), transitions=sum(m['states'] for m in mc),
        traces_validated_against_impl=execs,
        samples=[dict(scenario=sample[0], events=[(e['ev'], e['h'], e['k'], e['o']) for e in sample[2]][:40])],
        evaluations=execs, distinct_nontrivial=len(kinds),
        rule='all schedules with <= %d preemptions (cut at %d executions per scenario) of the real put_job / '
             'process_task at source-line granularity, %d scenarios x outcome rotations; distinct = event kinds observed'
             % (bound, limit, len(SCENARIOS[tier])),
        model_checking=mc, scheduler_steps=steps, real_worker_loop_outcomes=13,
        inductive_invariant=dict(tool='apalache-mc 0.58', module='spec/MC_Server.tla', obligations=len(apa),
                                 discharged=sum(1 for a in apa if a['discharged']), detail=apa), event_kinds=dict(kinds), conformance_divergences=len(div),
        exhaustive=False,
        explanation='Server.tla exhaustive (TLC); real executions validated by TraceServer.tla'),
        ['CPython line events are the scheduling points (a line is atomic here; the GIL could in principle switch inside '
         'a line, e.g. during deque iteration)', 'job handlers replaced by stubs raising the four outcome classes',
         'Flask/webhook layer not in this check (C14 covers what gets enqueued)'],
        time.time() - t0, new)
    print('C13: Server.tla %s; %d real executions (%d scheduler steps) validated by TraceServer, %d violations, %d divergences'
          % (', '.join('%s=%d states' % (m['cfg'], m['distinct']) for m in mc), execs, steps, len(viol) + len(lprobs), len(div)))
    return 1 if new else 0
