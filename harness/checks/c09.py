"""C09 - target cascade, ignored branches and fix versions are computed exactly.

Oracle: spec/Cascade.tla (from the statement) evaluated by TLC on every (branch set, tag set,
destination) of the universe; implementation: the real BranchCascade (add_branch, update_versions,
_update_major_versions, finalize, validate) over an in-memory git, in several discovery orders of the
branches and of the tags.
"""
import itertools
import json
import multiprocessing as mp
import os
import random
import shutil
import sys
import time

from .. import tlc, evidence, explore

REPO = explore.REPO

UB = [('d', 4, 0, -1), ('d', 4, 1, -1), ('d', 4, -1, -1), ('d', 5, 1, -1), ('d', 5, -1, -1),
      ('d', 10, 0, -1), ('d', 10, -1, -1), ('s', 4, 1, 1), ('s', 4, 1, 2), ('s', 5, 1, 0),
      ('h', 4, 0, 0), ('h', 4, 1, 0)]
# (maj, min, mic, hf, sfx, vprefix)
UT = [(4, 1, 0, -1, False, False), (4, 1, 1, -1, False, False), (4, 0, 0, -1, False, True),
      (4, 0, 0, 1, False, False), (5, 1, 0, -1, True, False), (4, 0, 0, 2, False, False),
      (5, 0, 0, -1, False, False), (10, 1, 3, -1, False, False)]


def bname(b):
    k, maj, mi, mic = b
    if k == 'd':
        return 'development/%d' % maj if mi == -1 else 'development/%d.%d' % (maj, mi)
    if k == 's':
        return 'stabilization/%d.%d.%d' % (maj, mi, mic)
    return 'hotfix/%d.%d.%d' % (maj, mi, mic)


def tname(t):
    maj, mi, mic, hf, sfx, vp = t
    s = '%d.%d.%d' % (maj, mi, mic)
    if hf >= 0:
        s += '.%d' % hf
    if sfx:
        s += '-rc1'
    return ('v' if vp else '') + s


def write_mc(scratch, nb, nt, maxb):
    ub = ', '.join('[k |-> "%s", maj |-> %d, min |-> %d, mic |-> %d]' % b for b in UB[:nb])
    ut = ', '.join('[maj |-> %d, min |-> %d, mic |-> %d, hf |-> %d, sfx |-> %s]' %
                   (t[0], t[1], t[2], t[3], 'TRUE' if t[4] else 'FALSE') for t in UT[:nt])
    # two tags may only differ by the v prefix: keep them distinct through an index field
    ut = ', '.join('[maj |-> %d, min |-> %d, mic |-> %d, hf |-> %d, sfx |-> %s, i |-> %d]' %
                   (t[0], t[1], t[2], t[3], 'TRUE' if t[4] else 'FALSE', i) for i, t in enumerate(UT[:nt]))
    mod = os.path.join(scratch, 'MC_Cascade.tla')
    with open(mod, 'w') as f:
        f.write('---- MODULE MC_Cascade ----\nEXTENDS Cascade\nMCUB == <<%s>>\nMCUT == <<%s>>\n====\n' % (ub, ut))
    cfg = os.path.join(scratch, 'MC_Cascade.cfg')
    with open(cfg, 'w') as f:
        f.write('SPECIFICATION Spec\nCONSTANTS\n UB <- MCUB\n UT <- MCUT\n MaxB = %d\n' % maxb)
    shutil.copy(os.path.join(tlc.SPEC_DIR, 'Cascade.tla'), scratch)
    return mod, cfg


class FakeRepo:
    def __deepcopy__(self, memo):
        return self

    def cmd(self, *a, **kw):
        return ''

    def checkout(self, name):
        return None


def _oracle(args):
    scratch, shard, nshard = args
    out = os.path.join(scratch, 'casc_%d.ndjson' % shard)
    import subprocess
    cmd = ['java', '-XX:+UseParallelGC', '-Xss16m', '-cp', tlc.JAR + ':' + tlc.CM, 'tlc2.TLC', '-config',
           'MC_Cascade.cfg', '-workers', '1', '-metadir', os.path.join(scratch, 'meta%d' % shard),
           '-noGenerateSpecTE', 'MC_Cascade.tla']
    env = dict(os.environ, OUT_FILE=out, SHARD=str(shard), NSHARD=str(nshard), TMPDIR=scratch,
               JAVA_TOOL_OPTIONS='-Djava.io.tmpdir=%s' % scratch)
    p = subprocess.run(cmd, cwd=scratch, stdout=subprocess.PIPE, stderr=subprocess.STDOUT,
                       universal_newlines=True, env=env, timeout=7200)
    if not os.path.exists(out):
        raise tlc.TLCError('Cascade oracle produced nothing:\n' + p.stdout[-3000:])
    return out


def real(B, T, dst, border, torder):
    from bert_e.workflow.gitwaterflow import branches as gwfb
    from bert_e import exceptions as exc
    repo = FakeRepo()
    c = gwfb.BranchCascade()
    d = gwfb.branch_factory(repo, bname(dst))
    try:
        for b in border:
            c.add_branch(gwfb.branch_factory(repo, bname(b)), d)
        for t in torder:
            c.update_versions(tname(t))
        c._update_major_versions()
        c.finalize(d)
        res = dict(tg=[x.name for x in c.dst_branches], ig=list(c.ignored_branches),
                   fix=list(c.target_versions), rej=False)
        try:
            c.validate()
        except exc.BertE_Exception as e:
            res['rej'] = True
            res['why'] = type(e).__name__
        return res
    except exc.BertE_Exception as e:
        return dict(rej=True, why=type(e).__name__, tg=None, ig=None, fix=None)


def _worker(args):
    path, lo, hi, seed, tier = args
    if REPO not in sys.path:
        sys.path.insert(0, REPO)
    import logging
    logging.disable(logging.CRITICAL)
    rng = random.Random(seed + lo)
    n = nev = 0
    bad = []
    classes = set()
    with open(path) as f:
        for i, line in enumerate(f):
            if i < lo or i >= hi or not line.strip():
                continue
            c = json.loads(line)
            B = [UB[j - 1] for j in c['bs']]
            T = [UT[j - 1] for j in c['ts']]
            dst = UB[c['dst'] - 1]
            exp_tg = [bname(UB[j - 1]) for j in c['tg']]
            exp_ig = sorted(bname(UB[j - 1]) for j in c['ig'])
            exp_fix = ['.'.join(str(x) for x in v) for v in c['fix']]
            n += 1
            classes.add((len(exp_tg), len(exp_ig), c['rej'], c['dc'], dst[0]))
            orders = [list(B), list(reversed(B))]
            if len(B) <= 3 or tier == 'thorough' and len(B) <= 4:
                orders = [list(p) for p in itertools.permutations(B)]
            else:
                sh = list(B)
                rng.shuffle(sh)
                orders.append(sh)
            torders = [list(T), list(reversed(T))]
            for bo in orders:
                for to in torders:
                    nev += 1
                    try:
                        r = real(B, T, dst, bo, to)
                    except Exception as e:                                   # noqa
                        r = dict(rej=None, why='CRASH ' + type(e).__name__ + ': ' + str(e)[:100],
                                 tg=None, ig=None, fix=None)
                    ok = True
                    if r['rej'] is None:
                        ok = False
                    elif c['rej']:
                        ok = r['rej'] is True
                    else:
                        if r['tg'] is None:
                            ok = bool(c['dc'])       # statement silent: rejection tolerated
                        else:
                            if r['tg'] != exp_tg or sorted(r['ig']) != exp_ig:
                                ok = False
                            if not c['dc'] and (r['rej'] or r['fix'] != exp_fix):
                                ok = False
                    if not ok:
                        bad.append(dict(branches=[bname(b) for b in bo], tags=[tname(t) for t in to],
                                        dst=bname(dst), expected=dict(rej=c['rej'], dc=c['dc'], tg=exp_tg,
                                                                      ig=exp_ig, fix=exp_fix), got=r))
                        break
                else:
                    continue
                break
    return n, nev, bad[:50], len(bad), sorted(classes)


def check(tier, seed):
    t0 = time.time()
    scratch = explore.make_scratch('c09')
    try:
        nb, nt, maxb = (11, 7, 4) if tier == 'quick' else (12, 8, 6)
        write_mc(scratch, nb, nt, maxb)
        nshard = 16
        ctx = mp.get_context('fork')
        with ctx.Pool(16) as pool:
            files = pool.map(_oracle, [(scratch, k, nshard) for k in range(nshard)], chunksize=1)
        work = []
        total = 0
        for path in files:
            nl = sum(1 for _ in open(path))
            total += nl
            step = max(1, nl // 4 + 1)
            for lo in range(0, nl, step):
                work.append((path, lo, lo + step, seed, tier))
        with ctx.Pool(16) as pool:
            rs = pool.map(_worker, work, chunksize=1)
        n = sum(r[0] for r in rs)
        nev = sum(r[1] for r in rs)
        nbad = sum(r[3] for r in rs)
        bad = [b for r in rs for b in r[2]]
        classes = set()
        for r in rs:
            classes |= {tuple(c) for c in r[4]}
        rdir = os.path.join(explore.VERIF, 'replays')
        os.makedirs(rdir, exist_ok=True)
        viol = []
        for i, b in enumerate(bad[:100]):
            p = os.path.join(rdir, 'C09_%d.json' % i)
            json.dump(b, open(p, 'w'), indent=1)
            viol.append(dict(sig=dict(clause='C09.cascade', dst=b['dst'], branches=sorted(b['branches']),
                                      tags=sorted(b['tags'])), replay=p))
        new = evidence.report('C09', viol, rdir)
        sample = json.loads(open(files[0]).readline())
        evidence.write('C09', tier, seed, 'model_checking', dict(
            states=total, transitions=total, traces_validated_against_impl=nev,
            samples=[dict(branches=[bname(UB[j - 1]) for j in sample['bs']],
                          tags=[tname(UT[j - 1]) for j in sample['ts']], dst=bname(UB[sample['dst'] - 1]),
                          expected=dict(targets=[bname(UB[j - 1]) for j in sample['tg']],
                                        ignored=[bname(UB[j - 1]) for j in sample['ig']], fix=sample['fix'],
                                        rejected=sample['rej'], dont_care=sample['dc']))],
            evaluations=nev, distinct_nontrivial=len(classes),
            rule='every non-empty subset (size <= %d) of a %d-branch universe x every subset of %d tags x every '
                 'member as destination, each in several discovery orders of branches and tags; distinct = '
                 '(#targets, #ignored, rejected, dont-care, destination kind) classes' % (maxb, nb, nt),
            universe=dict(branches=[bname(b) for b in UB[:nb]], tags=[tname(t) for t in UT[:nt]]),
            disagreements=nbad, exhaustive=True,
            explanation='states = cases enumerated and evaluated by TLC from spec/Cascade.tla'),
            ['in-memory git (ancestry always holds) - DevBranchesNotSelfContained is out of scope here',
             'inputs on which the statement is silent (VersionMismatch, later tag than the stabilization '
             'branch, hotfix without base tag): only targets and ignored branches are compared'],
            time.time() - t0, new)
        print('C09: %d cases from TLC, %d executions of the real BranchCascade, %d disagreements' % (n, nev, nbad))
        return 1 if new else 0
    finally:
        shutil.rmtree(scratch, ignore_errors=True)
