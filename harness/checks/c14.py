"""C14 - HTTP entry points enqueue work only for authorised callers.

Oracle: spec/Api.tla (the table of entry points and the expected outcome of every request of the matrix,
evaluated by TLC).  Implementation: the real Flask application (bert_e.server.setup_server) driven through
the Flask test client, built like the project's own test_server; observed: status code class and the content
of the task queue (number of jobs, job type, job settings).  The set of registered routes is compared with the
table, so an entry point added without being specified is reported.
"""
import base64
import copy
import json
import os
import shutil
import sys
import time
from types import SimpleNamespace

from .. import tlc, evidence, explore

REPO = explore.REPO

PR_IDS = {'id_1': '1', 'id_42': '42', 'id_0': '0', 'id_neg': '-1', 'id_alpha': 'abc'}
BRANCH = {
    'dev_xy': ('development/4.3', None), 'stab_xyz': ('stabilization/4.3.1', None),
    'hotfix_xyz': ('hotfix/4.3.1', None), 'dev_x': ('development/7', None), 'dev_xyz': ('development/4.3.1', None),
    'stab_xy': ('stabilization/4.3', None), 'feature': ('feature/TEST-1', None),
    'dev_xy_trailing': ('development/4.3x', None), 'release_xy': ('release/4.3', None),
    'dev_xy_from_branch': ('development/5.0', 'development/4.3'), 'dev_xy_from_sha': ('development/5.0', 'abc123'),
    'dev_xy_from_bad': ('development/5.0', 'zzz'), 'dev_xy_from_dev_x': ('development/5.0', 'development/4'),
}
KNOWN_NON_JOB_ROUTES = {'/', '/api/auth', '/auth', '/doc/<string:docname>', '/install-bitbucket-addon', '/login',
                        '/logout', '/manage', '/manage/<string:error>', '/static/<path:filename>'}
SPEC_ROUTES = {('/api/gwf/branches/<path:branch>', 'POST'), ('/api/gwf/branches/<path:branch>', 'DELETE'),
               ('/api/gwf/queues', 'PATCH'), ('/api/gwf/queues', 'POST'), ('/api/gwf/queues', 'DELETE'),
               ('/api/jobs', 'GET'), ('/api/jobs/<string:job_id>', 'GET'), ('/api/pull-requests/<int:pr_id>', 'POST'),
               ('/bitbucket', 'POST'), ('/github', 'POST'),
               ('/form/CreateBranchForm', 'POST'), ('/form/DeleteBranchForm', 'POST'),
               ('/form/DeleteQueuesForm', 'POST'), ('/form/EvalPullRequestForm', 'POST'),
               ('/form/ForceMergeQueuesForm', 'POST'), ('/form/RebuildQueuesForm', 'POST')}


def check(tier, seed):
    t0 = time.time()
    scratch = explore.make_scratch('c14')
    try:
        cfg = os.path.join(scratch, 'api.cfg')
        open(cfg, 'w').write('SPECIFICATION Spec\n')
        out = os.path.join(scratch, 'api.ndjson')
        out2 = os.path.join(scratch, 'login.ndjson')
        r = tlc.run_tlc('Api.tla', cfg, scratch, workers=1, env={'OUT_FILE': out, 'OUT_FILE2': out2})
        if not os.path.exists(out):
            raise tlc.TLCError('Api oracle produced nothing:\n' + r['out'][-3000:])
        rows = [json.loads(l) for l in open(out) if l.strip()]
        login_rows = [json.loads(l) for l in open(out2) if l.strip()]
    finally:
        shutil.rmtree(scratch, ignore_errors=True)
    if REPO not in sys.path:
        sys.path.insert(0, REPO)
    import logging
    logging.disable(logging.CRITICAL)
    os.environ.update(WEBHOOK_LOGIN='hooklogin', WEBHOOK_PWD='hookpwd', BERT_E_CLIENT_ID='cid',
                      BERT_E_CLIENT_SECRET='csecret')
    from collections import deque
    from queue import Queue
    from bert_e import bert_e as bemod, server
    from bert_e.git_host import bitbucket as bitbucket_api, mock as mock_api
    from bert_e.lib.settings_dict import SettingsDict
    from bert_e.tests.test_server_data import COMMENT_CREATED, COMMIT_STATUS_CREATED
    bitbucket_api.PullRequest = mock_api.PullRequest

    class MockBertE(bemod.BertE):
        def __init__(self, host, organization=''):
            self.client = mock_api.Client('login', 'password', 'email')
            self.project_repo = SimpleNamespace(owner='test_owner', slug='test_repo',
                                                full_name='test_owner/test_repo')
            self.settings = SettingsDict(dict(
                repository_host=host, repository_owner='owner', repository_slug='slug', build_key='pre-merge',
                pull_request_base_url='https://h/pr/{pr_id}', commit_base_url='https://h/c/{commit_id}',
                admins=['test_admin'], organization=organization, frontend_url=''))
            self.git_repo = SimpleNamespace()
            self.task_queue = Queue()
            self.tasks_done = deque(maxlen=1000)
            self.status = {}

    apps = {}
    for host in ('bitbucket', 'github'):
        b = MockBertE(host)
        apps[host] = (b, server.setup_server(b))
    # the GitHub handlers of issue_comment and check_suite fetch documents from the host: canned answers
    GH_DOCS = {}

    def gh_get(url, params=None, headers=None, **kw):
        from requests import HTTPError
        if '/actions/runs' in url:
            return copy.deepcopy(GH_DOCS['runs'])
        if url.endswith('/pulls/7'):
            return copy.deepcopy(GH_DOCS['pull'])
        raise HTTPError('404 ' + url)
    apps['github'][0].client.get = gh_get
    bert, app = apps['bitbucket']
    bad = []
    # ---- the set of routes
    routes = set()
    for rule in app.url_map.iter_rules():
        for m in rule.methods - {'HEAD', 'OPTIONS'}:
            routes.add((rule.rule, m))
    extra = {r for r in routes if r not in SPEC_ROUTES and r[0] not in KNOWN_NON_JOB_ROUTES}
    missing = SPEC_ROUTES - routes
    if extra or missing:
        bad.append(dict(what='registered routes differ from the specified table', extra=sorted(extra),
                        missing=sorted(missing)))

    def client_for(a, session):
        c = a.test_client()
        if session in ('user', 'admin'):
            with c.session_transaction() as s:
                s['user'] = 'test_admin' if session == 'admin' else 'test_user'
                s['admin'] = session == 'admin'
        return c

    def drain(b):
        jobs = []
        while b.task_queue.queue:
            jobs.append(b.task_queue.get())
            b.task_queue.task_done()
        return jobs

    def basic(cred):
        if cred == 'none':
            return {}
        pw = 'hookpwd' if cred == 'right' else 'nope'
        return {'Authorization': 'Basic ' + base64.b64encode(('hooklogin:' + pw).encode()).decode()}

    n = 0
    classes = set()
    skipped = []
    for row in rows:
        kind = row['kind']
        want_settings = None
        try:
            if kind in ('api', 'form'):
                b, a = apps['bitbucket']
                drain(b)
                c = client_for(a, row['session'])
                body = {}
                if kind == 'form':
                    url = '/form/' + row['path']
                    kw = {}
                else:
                    p, prm = row['path'], row['param']
                    kw = {}
                    if p == 'jobs':
                        url = '/api/jobs'
                    elif p == 'job':
                        url = '/api/jobs/no-such-job'
                    elif p == 'pr':
                        url = '/api/pull-requests/' + PR_IDS[prm]
                        kw = {'pr_id': int(PR_IDS[prm])} if PR_IDS[prm].lstrip('-').isdigit() else {}
                    elif p == 'branch':
                        name, frm = BRANCH[prm]
                        url = '/api/gwf/branches/' + name
                        kw = {'branch': name}
                        if frm is not None:
                            body = {'branch_from': frm}
                    else:
                        url = '/api/gwf/queues'
                    want_settings = dict(body, **kw)
                resp = getattr(c, row['method'].lower())(
                    url, data=json.dumps(body),
                    headers={'Content-Type': 'application/json', 'Accept': 'application/json'})
                jobs = drain(b)
            else:
                b, a = apps[kind]
                drain(b)
                b.project_repo.owner = 'test_owner' if row['param'] != 'other_owner' else 'someone_else'
                b.project_repo.slug = 'test_repo' if row['param'] != 'other_slug' else 'other_repo'
                b.project_repo.full_name = '%s/%s' % (b.project_repo.owner, b.project_repo.slug)
                c = a.test_client()
                ev = row['path']
                if kind == 'bitbucket':
                    if ev.startswith('repo:commit_status'):
                        data = copy.deepcopy(COMMIT_STATUS_CREATED)
                        data['commit_status']['state'] = 'SUCCESSFUL'
                        if ev.endswith('_inprogress'):
                            data['commit_status']['state'] = 'INPROGRESS'
                            ev = ev[:-len('_inprogress')]
                    elif ev.startswith('pullrequest:'):
                        data = copy.deepcopy(COMMENT_CREATED)
                    else:
                        data = {'repository': copy.deepcopy(COMMENT_CREATED['repository'])}
                    data['repository']['owner']['username'] = 'test_owner'
                    data['repository']['name'] = 'test_repo'
                    resp = c.post('/bitbucket', data=json.dumps(data),
                                  headers=dict({'X-Event-Key': ev}, **basic(row['session'])))
                else:
                    repo = {'name': 'test_repo', 'full_name': 'test_owner/test_repo',
                            'owner': {'id': 1, 'login': 'test_owner'}}
                    user = {'id': 2, 'login': 'contrib'}
                    pr = {'number': 7, 'state': 'open', 'title': 't', 'body': 'b', 'user': user,
                          'head': {'ref': 'bugfix/x', 'sha': 'a' * 40, 'repo': repo, 'user': user, 'label': 'o:x'},
                          'base': {'ref': 'development/4.3', 'sha': 'b' * 40, 'repo': repo, 'user': user,
                                   'label': 'o:y'}}
                    name = ev.split(':')[0]
                    if name == 'pull_request':
                        data = {'action': ev.split(':')[1], 'number': 7, 'pull_request': pr, 'repository': repo}
                    elif name == 'pull_request_review':
                        data = {'action': 'submitted', 'pull_request': pr, 'repository': repo}
                    elif name == 'status':
                        data = {'sha': 'c' * 40, 'state': ev.split(':')[1], 'context': 'pre-merge',
                                'description': 'd', 'target_url': 'http://ci/1', 'repository': repo}
                    elif name == 'issue_comment':
                        sub = ev.split(':')[1]
                        issue = {'number': 7, 'title': 't'}
                        if sub != 'issue':
                            issue['pull_request'] = {'url': 'https://api.github.com/repos/test_owner/test_repo/pulls/'
                                                            + ('7' if sub == 'pr' else '404')}
                        data = {'action': 'created', 'issue': issue, 'repository': repo}
                        GH_DOCS['pull'] = pr
                    elif name == 'check_suite':
                        done = ev.split(':')[1] == 'completed'
                        data = {'action': 'completed' if done else 'requested', 'repository': repo,
                                'check_suite': {'id': 5, 'head_sha': 'd' * 40, 'head_branch': 'q/4.3',
                                                'status': 'completed' if done else 'in_progress',
                                                'conclusion': 'success' if done else None}}
                        GH_DOCS['runs'] = {'total_count': 1, 'workflow_runs': [
                            {'id': 11, 'head_sha': 'd' * 40, 'head_branch': 'q/4.3', 'workflow_id': 3,
                             'check_suite_id': 5, 'event': 'push', 'html_url': 'http://ci/11', 'repository': repo,
                             'status': 'completed' if done else 'in_progress',
                             'conclusion': 'success' if done else None}]}
                    else:
                        data = {'repository': repo, 'zen': 'x'}
                    resp = c.post('/github', data=json.dumps(data),
                                  headers=dict({'X-Github-Event': name}, **basic(row['session'])))
                jobs = drain(b)
        except Exception as e:                                  # noqa
            skipped.append(dict(row=row, error=type(e).__name__ + ': ' + str(e)[:200]))
            continue
        n += 1
        code = resp.status_code
        classes.add((kind, row['class'], code))
        prob = None
        if row['class'] == 'enqueue':
            if not (200 <= code < 300) or len(jobs) != 1:
                prob = 'expected exactly one %s (status %d, %d jobs)' % (row['job'], code, len(jobs))
            elif type(jobs[0]).__name__ != row['job']:
                prob = 'job type %s, expected %s' % (type(jobs[0]).__name__, row['job'])
            elif want_settings is not None and dict(jobs[0].settings.maps[0]) != want_settings:
                prob = 'job parameters %r differ from the validated request %r' % (dict(jobs[0].settings.maps[0]),
                                                                                   want_settings)
        elif row['class'] == 'refuse':
            if jobs or code < 400:
                prob = 'must be refused with an error status and enqueue nothing (status %d, %d jobs)' % (code, len(jobs))
        elif row['class'] in ('read', 'ignore', 'form_ok'):
            if jobs:
                prob = 'must not enqueue (%d jobs)' % len(jobs)
            elif row['class'] == 'form_ok' and code in (401, 403):
                prob = 'authorised form callback refused (%d)' % code
            elif row['class'] == 'ignore' and code >= 400:
                prob = 'unhandled event answered with error %d' % code
        if prob:
            bad.append(dict(request={k: row[k] for k in ('kind', 'path', 'method', 'session', 'param')},
                            expected=dict(cls=row['class'], job=row['job']), status=code,
                            jobs=[type(j).__name__ for j in jobs], problem=prob))
    # ---- the login flow (Api.tla LoginRows): /api/auth with a host token, then requests on the same session
    import loginpass
    PROFILES = {
        'nouser': {'email': 'x@scality.com'},
        'member': {'preferred_username': 'Test_User', 'email': 'u@scality.com'},
        'member_admin': {'preferred_username': 'Test_Admin', 'email': 'a@scality.com'},
        'outsider': {'preferred_username': 'mallory', 'email': 'm@evil.example'},
        'outsider_admin': {'preferred_username': 'test_admin', 'email': 'a@evil.example'},
        'noemail': {'preferred_username': 'anon'},
        'noemail_admin': {'preferred_username': 'test_admin'},
        'lookalike': {'preferred_username': 'mallory', 'email': 'm@scality.com.evil.example'},
    }
    saved_profiles = {}
    for backend in (loginpass.Bitbucket, loginpass.GitHub):
        saved_profiles[backend] = backend.profile
        backend.profile = lambda self, token=None, **kw: dict(PROFILES[token['access_token']])
    JS = {'Content-Type': 'application/json', 'Accept': 'application/json'}
    FOLLOW_URL = {'jobs': '/api/jobs', 'job': '/api/jobs/no-such-job', 'pr': '/api/pull-requests/1',
                  'branch': '/api/gwf/branches/development/4.3', 'queues': '/api/gwf/queues'}
    n_login = 0
    try:
        for row in login_rows:
            for host in ('bitbucket', 'github'):
                b = MockBertE(host, 'scality.com' if row['param'] == 'set' else '')
                c = server.setup_server(b).test_client()
                resp = c.get('/api/auth' + ('' if row['path'] == 'notoken' else '?access_token=' + row['path']),
                             headers=JS)
                n_login += 1
                steps = [('login', resp.status_code)]
                prob = None
                if row['class'] == 'refuse' and resp.status_code < 400:
                    prob = 'login must be refused (status %d)' % resp.status_code
                elif row['class'] == 'login_ok' and resp.status_code >= 400:
                    prob = 'login of an authorised profile refused (status %d)' % resp.status_code
                if row['logout'] and not prob:
                    steps.append(('logout', c.get('/logout').status_code))
                for f in row['follow']:
                    if prob:
                        break
                    drain(b)
                    r2 = getattr(c, f['method'].lower())(FOLLOW_URL[f['path']], data='{}', headers=JS)
                    jobs = drain(b)
                    n_login += 1
                    steps.append((f['method'] + ' ' + f['path'], r2.status_code, [type(j).__name__ for j in jobs]))
                    if f['class'] == 'refuse' and (jobs or r2.status_code < 400):
                        prob = '%s %s after this login must be refused and enqueue nothing (status %d, %d jobs)' % (
                            f['method'], f['path'], r2.status_code, len(jobs))
                    elif f['class'] == 'enqueue' and (len(jobs) != 1 or type(jobs[0]).__name__ != f['job']):
                        prob = '%s %s after this login must create one %s (status %d, jobs %s)' % (
                            f['method'], f['path'], f['job'], r2.status_code, [type(j).__name__ for j in jobs])
                    elif f['class'] == 'read' and (jobs or r2.status_code in (401, 403)):
                        prob = '%s %s after this login must answer and enqueue nothing (status %d)' % (
                            f['method'], f['path'], r2.status_code)
                classes.add(('login', row['class'], row['session']))
                if prob:
                    bad.append(dict(request=dict(kind='login', host=host, profile=row['path'], organization=row['param'],
                                                 logout=row['logout']),
                                    expected=dict(cls=row['class'], session=row['session']), status=resp.status_code,
                                    jobs=[], steps=steps, problem=prob))
    finally:
        for backend, prof in saved_profiles.items():
            backend.profile = prof
    rdir = os.path.join(explore.VERIF, 'replays')
    os.makedirs(rdir, exist_ok=True)
    viol = []
    for i, b_ in enumerate(bad[:100]):
        p = os.path.join(rdir, 'C14_%d.json' % i)
        json.dump(b_, open(p, 'w'), indent=1)
        viol.append(dict(sig=dict(clause='C14.api', **{k: str(v)[:200] for k, v in b_.items()}), replay=p))
    new = evidence.report('C14', viol, rdir)
    if skipped:
        print('note: %d cells of the matrix could not be driven offline (first: %s)' % (len(skipped), skipped[0]))
    evidence.write('C14', tier, seed, 'model_checking', dict(
        states=len(rows) + len(login_rows), transitions=len(rows) + n_login, traces_validated_against_impl=n + n_login,
        login_sequences=2 * len(login_rows),
        samples=rows[:3], evaluations=n, distinct_nontrivial=len(classes),
        rule='the full matrix of spec/Api.tla: 5 API paths x 5 methods x 3 sessions x parameter classes; 6 forms x 5 '
             'methods x 3 sessions; 2 webhook routes x 3 credentials x 3 repository identities x event types; plus '
             'the comparison of the registered routes with the table; login flow: 9 host profiles x organisation set/unset '
             'x logout, on both hosts, each followed by the 8 endpoints on the same session; distinct = (kind, expected class, status code)',
        cells_not_driven=len(skipped), routes_registered=len(routes), disagreements=len(bad), exhaustive=True,
        explanation='spec/Api.tla evaluated by TLC; every cell sent through the Flask test client'),
        ['in the request matrix the session is set through the test client (as in the project tests); the login flow '
         'itself is driven through /api/auth with the host profile call (loginpass .profile) answered locally',
         'form callbacks are only checked for authorisation and for not enqueueing by themselves (they call the API '
         'over HTTP, which needs a network)', 'GitHub payloads are minimal schema-valid documents'],
        time.time() - t0, new)
    print('C14: %d requests of the matrix and %d requests of %d login sequences sent to the real Flask app, '
          '%d disagreements, %d cells not driven' % (n, n_login, 2 * len(login_rows), len(bad), len(skipped)))
    return 1 if new else 0
