"""C04 - the review gate lets a pull request through exactly when approvals suffice.

Oracle: Gates!ApprovalGate (spec/Gates.tla, written from the statement), evaluated by TLC for every
configuration x every standing of every user.  Implementation: the real check_approvals on a real
PullRequestJob whose settings come from the real settings loader (YAML -> SettingsSchema, including the
inter-settings validation and the per-author options), with options coming from the three sources
(comment option, per-author setting, command line default through gwf.setup + Reactor.init_settings).
"""
import json
import multiprocessing as mp
import os
import shutil
import sys
import time

from .. import tlc, evidence, explore

REPO = explore.REPO
NAMES5 = ['author', 'peer1', 'peer2', 'leader', 'robot']
NAMES4 = ['author', 'peer1', 'leader', 'robot']


def _oracle(args):
    scratch, nu, maxpeers, shard, nshard = args
    cfg = os.path.join(scratch, 'gates_%d.cfg' % shard)
    with open(cfg, 'w') as f:
        f.write('SPECIFICATION Spec\nCONSTANTS\n NU = %d\n' % nu)
    out = os.path.join(scratch, 'appr_%d.ndjson' % shard)
    r = tlc.run_tlc('Gates.tla', cfg, scratch, workers=1,
                    env={'OUT_FILE': out, 'SHARD': str(shard), 'NSHARD': str(nshard), 'MODE': 'approval',
                         'MAX_PEERS': str(maxpeers)}, timeout=7200)
    if not os.path.exists(out):
        raise tlc.TLCError('Gates oracle produced nothing:\n' + r['out'][-3000:])
    return out


class PR:
    def __init__(self, names, x, nu):
        self.author = 'author'
        self.id = 1
        self.part, self.appr, self.chg = [], [], []
        for u in range(nu):
            s = (x // 5 ** u) % 5
            if s > 0:
                self.part.append(names[u])
            if s in (2, 4):
                self.appr.append(names[u])
            if s in (3, 4):
                self.chg.append(names[u])

    def get_participants(self):
        return iter(self.part)

    def get_approvals(self):
        return iter(self.appr)

    def get_change_requests(self):
        return iter(self.chg)


def _setup():
    if REPO not in sys.path:
        sys.path.insert(0, REPO)
    import logging
    logging.disable(logging.CRITICAL)
    import bert_e.exceptions as exc
    exc.render = lambda template, **kw: template


def _yaml(path, line, names, perauthor):
    leaders = [names[i - 1] for i in line['leadset']]
    lines = ['repository_owner: o', 'repository_slug: s', 'repository_host: mock', 'robot: robot',
             'robot_email: r@x.org', 'required_peer_approvals: %d' % line['peers'],
             'required_leader_approvals: %d' % line['leaders'],
             'need_author_approval: %s' % ('true' if line['need'] else 'false'),
             'admins:', '  - admin']
    lines.append('project_leaders:' + (' []' if not leaders else ''))
    for l in leaders:
        lines.append('  - ' + l)
    lines.append('pr_author_options:')
    lines.append('  aaa_other:')
    for b in ('bypass_author_approval', 'bypass_peer_approval', 'bypass_leader_approval',
              'bypass_build_status', 'bypass_jira_check'):
        lines.append('    - ' + b)
    lines.append('  author:')
    for b in ['bypass_build_status', 'bypass_jira_check'] + list(perauthor):   # unrelated bypasses always present
        lines.append('    - ' + b)
    lines.append('  zzz_other:')
    lines.append('    - bypass_incompatible_branch')
    with open(path, 'w') as f:
        f.write('\n'.join(lines) + '\n')


def _worker(args):
    path, lo, hi, nu, tier, scratch = args
    _setup()
    from bert_e.settings import setup_settings
    from bert_e.job import PullRequestJob
    from bert_e.reactor import Reactor
    from bert_e.workflow import gitwaterflow as gwf
    from bert_e import exceptions as exc
    names = NAMES5 if nu == 5 else NAMES4
    n = ndc = 0
    bad = []
    classes = set()
    ypath = os.path.join(scratch, 'c04_%d_%d.yml' % (os.getpid(), lo))

    class BE:
        project_repo = object()
        git_repo = object()
        client = None
    with open(path) as f:
        for i, ln in enumerate(f):
            if i < lo or i >= hi or not ln.strip():
                continue
            line = json.loads(ln)
            byp = dict(bypass_author_approval=line['bypA'], bypass_peer_approval=line['bypP'],
                       bypass_leader_approval=line['bypL'])
            active = [k for k, v in byp.items() if v]
            # sources of the bypasses: 0 comment, 1 per-author setting, 2 command line
            srcs = [0, 1, 2] if (tier == 'thorough' and active) else [(i + line['peers']) % 3]
            for src in srcs:
                _yaml(ypath, line, names, active if src == 1 else [])
                try:
                    settings = setup_settings(ypath)
                except exc.MalformedSettings:
                    bad.append(dict(line={k: v for k, v in line.items() if k != 'res'}, settings_rejected=True))
                    break
                settings['use_queue'] = True
                BE.settings = settings
                gwf.setup({k: True for k in active} if src == 2 else {})
                for x, exp in enumerate(line['res']):
                    robot_st = (x // 5 ** (nu - 1)) % 5
                    author_st = x % 5
                    if robot_st > 1 or (line['approve'] and author_st == 0):
                        ndc += 1
                        continue
                    pr = PR(names, x, nu)
                    job = PullRequestJob(bert_e=BE, pull_request=pr)
                    Reactor().init_settings(job)
                    if src == 0:
                        for k in active:
                            job.settings[k] = True
                    if line['approve']:
                        job.settings['approve'] = True
                    if line['unan']:
                        job.settings['unanimity'] = True
                    try:
                        gwf.check_approvals(job)
                        got = 1
                    except exc.ApprovalRequired:
                        got = 0
                    n += 1
                    classes.add((exp, line['peers'], line['leaders'], line['unan'], len(pr.chg) > 0))
                    if got != exp:
                        bad.append(dict(line={k: v for k, v in line.items() if k != 'res'}, x=x, source=src,
                                        participants=pr.part, approvals=pr.appr, change_requests=pr.chg,
                                        expected='pass' if exp else 'ApprovalRequired',
                                        got='pass' if got else 'ApprovalRequired'))
            gwf.setup({})
    try:
        os.unlink(ypath)
    except OSError:
        pass
    return n, ndc, bad[:40], len(bad), sorted(classes)


def check(tier, seed):
    t0 = time.time()
    scratch = explore.make_scratch('c04')
    try:
        nu, maxpeers = (4, 2) if tier == 'quick' else (5, 3)
        nshard = 16
        ctx = mp.get_context('fork')
        with ctx.Pool(16) as pool:
            files = pool.map(_oracle, [(scratch, nu, maxpeers, k, nshard) for k in range(nshard)], chunksize=1)
        work = []
        nlines = 0
        for path in files:
            nl = sum(1 for _ in open(path))
            nlines += nl
            step = max(1, (nl + 3) // 4)
            for lo in range(0, nl, step):
                work.append((path, lo, lo + step, nu, tier, scratch))
        with ctx.Pool(16) as pool:
            rs = pool.map(_worker, work, chunksize=1)
        n = sum(r[0] for r in rs)
        nbad = sum(r[3] for r in rs)
        bad = [b for r in rs for b in r[2]]
        classes = set()
        for r in rs:
            classes |= {tuple(c) for c in r[4]}
        rdir = os.path.join(explore.VERIF, 'replays')
        os.makedirs(rdir, exist_ok=True)
        viol = []
        for i, b in enumerate(bad[:100]):
            p = os.path.join(rdir, 'C04_%d.json' % i)
            json.dump(b, open(p, 'w'), indent=1)
            viol.append(dict(sig=dict(clause='C04.gate', **{k: v for k, v in b.items() if k in ('expected', 'got', 'source')},
                                      cfg=json.dumps(b['line'], sort_keys=True)), replay=p))
        new = evidence.report('C04', viol, rdir)
        cases = nlines * 5 ** nu
        first = json.loads(open(files[0]).readline())
        evidence.write('C04', tier, seed, 'model_checking', dict(
            states=cases, transitions=cases, traces_validated_against_impl=n,
            samples=[dict(config={k: v for k, v in first.items() if k != 'res'},
                          expected_vector_head=first['res'][:10])],
            evaluations=n, distinct_nontrivial=len(classes),
            rule='every settings/options configuration (peers 0..%d, leaders 0..2, author approval on/off, three '
                 'leader sets, 2^5 option subsets) x every standing (absent / participant / approved / requested '
                 'changes / both) of %d users; bypass source rotated (quick) or all three (thorough); distinct = '
                 '(outcome, peers, leaders, unanimity, change request present) classes' % (maxpeers, nu),
            dont_care_skipped=sum(r[1] for r in rs), disagreements=nbad, exhaustive=True,
            explanation='states = cases evaluated by TLC from Gates!ApprovalGate; each executed on the real check_approvals'),
            ['host-consistent inputs (approvers and change requesters are participants; an author who wrote '
             '`approve` is a participant)', 'reading (ii) of "every review requirement above is waived" (DESIGN.md C04)',
             'message rendering replaced by a constant (the outcome class is the observable)'],
            time.time() - t0, new)
        print('C04: %d cases executed on the real check_approvals (%d configurations from TLC), %d disagreements'
              % (n, nlines, nbad))
        return 1 if new else 0
    finally:
        shutil.rmtree(scratch, ignore_errors=True)
