"""C06 - the build gate requires a green build on every integration commit.

Function half: Gates!BuildGate (spec/Gates.tla) evaluated by TLC for every status vector over 1..4
integration branches x bypass x build key; implementation: the real check_build_status on a real
PullRequestJob (settings through the real loader; bypass through comment option / per-author setting
with several authors listed / command line).  History half: clause C06.gate of TraceMon.tla on every
real `Queued` / direct-merge outcome of the shared system exploration (harness/syscheck.py).
"""
import json
import os
import shutil
import sys
import time

from .. import tlc, evidence, explore, syscheck

REPO = explore.REPO
ST = ['SUCCESSFUL', 'INPROGRESS', 'NOTSTARTED', 'STOPPED', 'FAILED']


def function_half(scratch):
    cfg = os.path.join(scratch, 'gates_b.cfg')
    with open(cfg, 'w') as f:
        f.write('SPECIFICATION Spec\nCONSTANTS\n NU = 4\n')
    out = os.path.join(scratch, 'build.ndjson')
    r = tlc.run_tlc('Gates.tla', cfg, scratch, workers=1,
                    env={'OUT_FILE': out, 'SHARD': '0', 'NSHARD': '1', 'MODE': 'build', 'MAX_PEERS': '0'})
    if not os.path.exists(out):
        raise tlc.TLCError('Gates (build) oracle produced nothing:\n' + r['out'][-3000:])
    lines = [json.loads(l) for l in open(out) if l.strip()]
    if REPO not in sys.path:
        sys.path.insert(0, REPO)
    import logging
    logging.disable(logging.CRITICAL)
    import bert_e.exceptions as exc
    exc.render = lambda template, **kw: template
    from bert_e.settings import setup_settings
    from bert_e.job import PullRequestJob
    from bert_e.reactor import Reactor
    from bert_e.workflow import gitwaterflow as gwf

    class Repo:
        def __init__(self, st):
            self.st = st

        def get_build_status(self, sha, key):
            return self.st[sha]

        def get_build_url(self, sha, key):
            return None

        def get_commit_url(self, sha):
            return 'u'

    # the integration branches are objects of the real classes (the gate may look at any of their attributes):
    # the source branch as GhostIntegrationBranch on the first destination, then w/<version>/<source>.
    # Two layouts: a development cascade, and a stabilization cascade, where the source ghost and w/4.3/...
    # carry the same major.minor.  The verdict of Gates.tla depends on the status vector only.
    from bert_e.workflow.gitwaterflow import branches as gwfb
    LAYOUTS = {'dev': ['development/4.3', 'development/5.1', 'development/10.0', 'development/10.1', 'development/11'],
               'stab': ['stabilization/4.3.18', 'development/4.3', 'development/5.1', 'development/10.0',
                        'development/10']}

    def W_list(layout, k):
        out = []
        for i, d in enumerate(LAYOUTS[layout][:k]):
            dst = gwfb.branch_factory(None, d)
            if i == 0:
                b = gwfb.GhostIntegrationBranch(None, 'bugfix/TEST-1-x', dst)
            else:
                b = gwfb.branch_factory(None, 'w/%s/bugfix/TEST-1-x' % dst.version)
            b.get_latest_commit = (lambda sha: (lambda: sha))('c%d' % i)
            out.append(b)
        return out

    class PR:
        author = 'author'
        id = 1

    n = 0
    bad = []
    classes = set()
    ypath = os.path.join(scratch, 'c06.yml')
    for line in lines:
        k, bypass, nokey = line['k'], bool(line['bypass']), bool(line['nokey'])
        for src in ((0, 1, 2) if bypass else (0,)):
            y = ['repository_owner: o', 'repository_slug: s', 'repository_host: mock', 'robot: robot',
                 'robot_email: r@x.org', 'build_key: "%s"' % ('' if nokey else 'pre-merge'),
                 'pr_author_options:', '  aaa_other:', '    - bypass_build_status', '    - bypass_peer_approval',
                 '  author:', '    - bypass_peer_approval', '    - bypass_jira_check']
            if bypass and src == 1:
                y.append('    - bypass_build_status')
            y += ['  zzz_other:', '    - bypass_jira_check']
            open(ypath, 'w').write('\n'.join(y) + '\n')
            settings = setup_settings(ypath)
            settings['use_queue'] = True

            class BE:
                project_repo = None
                git_repo = object()
            BE.settings = settings
            gwf.setup({'bypass_build_status': True} if (bypass and src == 2) else {})
            for layout, (x, exp) in [(l_, xe) for l_ in sorted(LAYOUTS) for xe in enumerate(line['res'])]:
                ws = W_list(layout, k)
                st = {}
                yv = x
                for i in range(k):
                    st['c%d' % i] = ST[yv % 5]
                    yv //= 5
                job = PullRequestJob(bert_e=BE, pull_request=PR(), project_repo=Repo(st))
                Reactor().init_settings(job)
                if bypass and src == 0:
                    job.settings['bypass_build_status'] = True
                try:
                    gwf.check_build_status(job, ws)
                    got = 'pass'
                except exc.BuildFailed:
                    got = 'failed'
                except (exc.BuildNotStarted, exc.BuildInProgress) as e:
                    got = 'wait' if isinstance(e, exc.SilentException) else 'wait-but-comments'
                n += 1
                classes.add((k, exp, bypass, nokey))
                if got != exp:
                    bad.append(dict(k=k, layout=[w.name for w in ws], statuses=[st['c%d' % i] for i in range(k)], bypass=bypass,
                                    source=['comment', 'per-author', 'command line'][src], nokey=nokey,
                                    expected=exp, got=got))
            gwf.setup({})
    return n, bad, classes, lines


def check(tier, seed):
    t0 = time.time()
    scratch = explore.make_scratch('c06')
    try:
        # in a child process: the function half patches bert_e modules (constant message rendering, stub host);
        # the shared system exploration below forks its workers from THIS process and must see pristine modules
        # (a cold-cache C06 run used to hand C10.fresh / C19.events a contaminated exploration: false alarms)
        import multiprocessing as mp
        with mp.get_context('fork').Pool(1) as pool:
            n, bad, classes, lines = pool.apply(function_half, (scratch,))
    finally:
        shutil.rmtree(scratch, ignore_errors=True)
    rdir = os.path.join(explore.VERIF, 'replays')
    os.makedirs(rdir, exist_ok=True)
    viol = []
    for i, b in enumerate(bad[:50]):
        p = os.path.join(rdir, 'C06_%d.json' % i)
        json.dump(b, open(p, 'w'), indent=1)
        viol.append(dict(sig=dict(clause='C06.function', **b), replay=p))
    # history half: shared system exploration
    res = syscheck.sysrun(tier, seed)
    if res['monitor_errors']:
        print('MACHINERY FAILURE: TraceMon rejected a stream:\n' + res['monitor_errors'][0][-1500:])
        return 2
    viol += [v for v in res['violations'] if v['clause'].startswith('C06.')]
    new = evidence.report('C06', viol, rdir)
    cases = sum(len(l['res']) for l in lines)
    gated = sum(c for s, c in res['statuses'] if s in ('Queued', 'SuccessMessage'))
    evidence.write('C06', tier, seed, 'model_checking', dict(
        states=cases, transitions=cases, traces_validated_against_impl=n + gated,
        samples=[dict(k=lines[0]['k'], bypass=lines[0]['bypass'], nokey=lines[0]['nokey'],
                      expected_vector_head=lines[0]['res'][:6])] + res['samples'][:1],
        evaluations=n + gated, distinct_nontrivial=len(classes),
        rule='function half: all 5^k status vectors, k=1..4, x bypass (three sources) x build key x two layouts of real branch objects (development cascade; stabilization cascade where the source ghost and w/x.y share major.minor); distinct = '
             '(k, outcome, bypass, key) classes. history half: clause C06.gate on every real Queued / '
             'SuccessMessage outcome of the system exploration (%d such outcomes this run)' % gated,
        function_cases=n, history_outcomes_checked=gated, disagreements=len(bad), exhaustive=True,
        explanation='Gates!BuildGate evaluated by TLC; TraceMon clause C06.gate on real histories'),
        ['mock git host build statuses; message rendering replaced by a constant in the function half'],
        time.time() - t0, new)
    print('C06: %d function cases, %d real queue/merge outcomes judged, %d function disagreements'
          % (n, gated, len(bad)))
    return 1 if new else 0
