"""C05 - a queue evaluation merges the longest all-green prefix of the queue, in order.

Oracle: spec/QueueOracle.tla (written from the property statement), evaluated by TLC over the whole
quantified domain of a tier.  Implementation: the real QueueCollection (_add_branch, finalize,
validate, mergeable_prs, mergeable_queues) and the real BranchCascade.get_merge_paths, over an
in-memory git (the three commands they issue).  Every case of the domain is compared.
"""
import itertools
import json
import multiprocessing as mp
import os
import shutil
import sys
import time

from .. import tlc, evidence, explore

REPO = explore.REPO
DEVV = ['4.3', '5.1', '10.0']
STAB_MICRO = {1: '4.3.18', 2: '5.1.4', 3: '10.0.1'}
HFV = ['4.2.17', '5.1.2']
STATUS = ['SUCCESSFUL', 'FAILED', 'INPROGRESS', 'NOTSTARTED']

# (NDev, StabAt, NHf, NPr, NSt)   NHf: number of hotfix branches (False/True = 0/1)
DOMAIN = {
    'quick': [(3, 0, False, 3, 3), (3, 2, False, 3, 2), (2, 2, True, 3, 2), (2, 0, True, 3, 3),
              (3, 3, True, 2, 4), (2, 1, False, 3, 3), (1, 1, True, 3, 4), (3, 0, False, 2, 4),
              (2, 0, 2, 3, 2), (1, 1, 2, 3, 3)],
    'thorough': [(3, 0, False, 4, 2), (3, 2, False, 4, 2), (3, 1, False, 4, 2), (3, 3, False, 4, 2),
                 (2, 2, True, 4, 2), (2, 1, True, 4, 2), (3, 0, True, 4, 2), (3, 2, True, 3, 3),
                 (3, 0, False, 3, 4), (2, 0, True, 4, 3), (2, 2, False, 4, 3), (1, 1, True, 4, 4),
                 (3, 1, True, 3, 3), (3, 3, True, 3, 3), (2, 0, 2, 4, 2), (2, 2, 2, 4, 2), (1, 0, 2, 4, 3),
                 (3, 2, 2, 3, 3)],
}


class FakeRepo:
    """In-memory interpreter of the git commands QueueCollection / BranchCascade issue."""
    def __init__(self):
        self.tips = {}
        self.anc = {}

    def __deepcopy__(self, memo):
        return self

    def checkout(self, name):
        if name not in self.tips:
            from bert_e.lib.git import CheckoutFailedException
            raise CheckoutFailedException(name)

    def resolve(self, x):
        x = str(x)
        return self.tips.get(x, x)

    def cmd(self, command, *args, **kw):
        from bert_e.lib.simplecmd import CommandError
        if command.startswith('git rev-parse'):
            return self.resolve(args[0]) + '\n'
        if command.startswith('git merge-base --is-ancestor'):
            a, b = self.resolve(args[0]), self.resolve(args[1])
            if a in self.anc[b]:
                return ''
            raise CommandError('not ancestor')
        if command.startswith('git checkout'):
            self.checkout(str(args[0]))
            return ''
        raise AssertionError('unexpected git command: ' + command)


def dests(ndev, stab, hf):
    out = []
    for i in range(1, ndev + 1):
        if stab == i:
            out.append(('s', i))
        out.append(('d', i))
    for k in range(int(hf)):
        out.append(('h', k))
    return out


def targets(d, ndev):
    if d[0] == 'h':
        return [d]
    devs = [('d', i) for i in range(d[1], ndev + 1)]
    return ([d] + devs) if d[0] == 's' else devs


def bname(d):
    if d[0] == 'd':
        return 'development/' + DEVV[d[1] - 1]
    if d[0] == 's':
        return 'stabilization/' + STAB_MICRO[d[1]]
    return 'hotfix/' + HFV[d[1]]


def qver(d):
    if d[0] == 'd':
        return DEVV[d[1] - 1]
    if d[0] == 's':
        return STAB_MICRO[d[1]]
    return HFV[d[1]] + '.1'


def below(u, v):
    """u's content is contained in v's along a merge path (u = v included)."""
    if u == v:
        return True
    if u[0] == 'h' or v[0] == 'h':
        return False
    if v[0] == 's':
        return False
    if u[0] == 's':
        return v[1] >= u[1]
    return u[1] <= v[1]


_import_done = False


def _imports():
    global _import_done, gwfb
    if not _import_done:
        if REPO not in sys.path:
            sys.path.insert(0, REPO)
        import logging
        logging.disable(logging.CRITICAL)
        from bert_e.workflow.gitwaterflow import branches as gwfb_
        gwfb = gwfb_
        _import_done = True


def real_select(shape, dsts, statuses, force=False):
    """Run the real QueueCollection on the abstract queue. statuses: commit (pr,dest) -> str."""
    ndev, stab, hf, npr, nst = shape
    D = dests(ndev, stab, hf)
    repo = FakeRepo()
    # destination tips
    for d in D:
        c = 'base:%s%d' % d
        repo.tips[bname(d)] = c
        repo.anc[c] = {'base:%s%d' % u for u in D if below(u, d)}
    commits = []
    for p in range(1, npr + 1):
        for t in targets(D[dsts[p - 1] - 1], ndev):
            commits.append((p, t))
    for (p, v) in commits:
        c = 'qc:%d:%s%d' % (p, v[0], v[1])
        repo.anc[c] = {c} | repo.anc['base:%s%d' % v] | \
            {'qc:%d:%s%d' % (q, u[0], u[1]) for (q, u) in commits if q <= p and below(u, v)}
        for (q, u) in commits:
            if q <= p and below(u, v):
                repo.anc[c] |= repo.anc['base:%s%d' % u]
        repo.tips['q/w/%d/%s/bugfix/TEST-%d' % (p, qver(v), p)] = c
        repo.tips['q/' + qver(v)] = c            # newest so far
    st = {'qc:%d:%s%d' % (p, v[0], v[1]): s for (p, v), s in statuses.items()}

    class BB:
        def get_build_status(self, sha, key):
            return st.get(sha, 'NOTSTARTED')
    casc = gwfb.BranchCascade()
    for d in D:
        casc.add_branch(gwfb.branch_factory(repo, bname(d)))
    qc = gwfb.QueueCollection(BB(), 'pre-merge', casc.get_merge_paths(), force)
    for name in sorted(repo.tips):
        if name.startswith('q/'):
            qc._add_branch(gwfb.branch_factory(repo, name))
    qc.finalize()
    qc.validate()
    prs = list(qc.mergeable_prs)
    moved = {}
    for version, br in qc.mergeable_queues.items():
        qints = br[gwfb.QueueIntegrationBranch]
        if qints:
            moved[br[gwfb.QueueBranch].dst_branch.name] = qints[0].pr_id
    return prs, moved


def _case_worker(args):
    shape, lines, force_sample = args
    _imports()
    ndev, stab, hf, npr, nst = shape
    D = dests(ndev, stab, hf)
    bad = []
    n = 0
    nontrivial = set()
    for ln in lines:
        dsts = ln['dsts']
        commits = []
        for p in range(1, npr + 1):
            for t in targets(D[dsts[p - 1] - 1], ndev):
                commits.append((p, t))
        main = [p for p in range(1, npr + 1) if D[dsts[p - 1] - 1][0] != 'h']
        hfq = [p for p in range(1, npr + 1) if D[dsts[p - 1] - 1][0] == 'h']
        hfk = [[p for p in hfq if D[dsts[p - 1] - 1][1] == k] for k in (0, 1)]
        for x, exp in enumerate(ln['res']):
            statuses = {}
            y = x
            for c in commits:
                statuses[c] = STATUS[y % nst]
                y //= nst
            k0, k1, k2 = exp // 100, (exp // 10) % 10, exp % 10
            sel = set(main[:k0]) | set(hfk[0][:k1]) | set(hfk[1][:k2])
            expmoved = {}
            for d in D:
                on = [p for p in sorted(sel) if d in targets(D[dsts[p - 1] - 1], ndev)]
                if on:
                    expmoved[bname(d)] = on[-1]
            n += 1
            nontrivial.add((k0, k1, k2, len(main), len(hfk[0]), len(hfk[1])))
            try:
                prs, moved = real_select(shape, dsts, statuses)
                ok = set(prs) == sel and moved == expmoved
                got = dict(prs=sorted(prs), moved=moved)
            except Exception as e:                                   # noqa
                ok = False
                got = dict(error=type(e).__name__ + ': ' + str(e)[:200])
            if not ok:
                bad.append(dict(shape=list(shape), dsts=dsts, x=x,
                                statuses={'%d@%s' % (p, bname(v)): s for (p, v), s in statuses.items()},
                                expected=dict(prs=sorted(sel), moved=expmoved), got=got))
            if force_sample and x == len(ln['res']) - 1:
                prs, moved = real_select(shape, dsts, statuses, force=True)
                n += 1
                if set(prs) != set(main) | set(hfq):
                    bad.append(dict(shape=list(shape), dsts=dsts, x=x, force=True,
                                    expected=dict(prs=sorted(set(main) | set(hfq))),
                                    got=dict(prs=sorted(prs), moved=moved)))
    return n, bad, sorted(nontrivial)


def _oracle(args):
    shape, shard, nshard, scratch = args
    ndev, stab, hf, npr, nst = shape
    tag = 'qo_%d_%d_%d_%d_%d_%d' % (ndev, stab, int(hf), npr, nst, shard)
    cfg = os.path.join(scratch, tag + '.cfg')
    with open(cfg, 'w') as f:
        f.write('SPECIFICATION Spec\nCONSTANTS\n NDev = %d\n StabAt = %d\n NHf = %d\n NPr = %d\n NSt = %d\n'
                % (ndev, stab, int(hf), npr, nst))
    out = os.path.join(scratch, tag + '.ndjson')
    r = tlc.run_tlc('QueueOracle.tla', cfg, scratch, workers=1,
                    env={'OUT_FILE': out, 'SHARD': str(shard), 'NSHARD': str(nshard)}, timeout=3000)
    if not os.path.exists(out):
        raise tlc.TLCError('QueueOracle produced nothing:\n' + r['out'][-2000:])
    lines = [json.loads(l) for l in open(out) if l.strip()]
    os.unlink(out)
    return shape, lines, r['wall_s']


def check(tier, seed):
    t0 = time.time()
    scratch = explore.make_scratch('c05')
    try:
        shapes = DOMAIN[tier]
        nshard = 2 if tier == 'quick' else 4
        jobs = [(s, k, nshard, scratch) for s in shapes for k in range(nshard)]
        ctx = mp.get_context('fork')
        with ctx.Pool(16) as pool:
            oracles = pool.map(_oracle, jobs, chunksize=1)
        work = []
        for shape, lines, w in oracles:
            for i in range(0, len(lines), 4):
                work.append((shape, lines[i:i + 4], True))
        with ctx.Pool(16) as pool:
            results = pool.map(_case_worker, work, chunksize=4)
        n = sum(r[0] for r in results)
        bad = [b for r in results for b in r[1]]
        classes = set()
        for r in results:
            classes |= {tuple(c) for c in r[2]}
        viol = []
        rdir = os.path.join(explore.VERIF, 'replays')
        os.makedirs(rdir, exist_ok=True)
        for i, b in enumerate(bad[:200]):
            path = os.path.join(rdir, 'C05_%d.json' % i)
            with open(path, 'w') as f:
                json.dump(b, f, indent=1)
            viol.append(dict(sig=dict(clause='C05.select', shape=b['shape'], dsts=b['dsts'],
                                      kind='force' if b.get('force') else 'select'), replay=path))
        new = evidence.report('C05', viol, rdir)
        cases = sum(len(l['res']) for _, lines, _ in oracles for l in lines)
        evidence.write('C05', tier, seed, 'model_checking', dict(
            states=cases, transitions=cases, traces_validated_against_impl=n,
            samples=[dict(shape=list(s), first_line=(ls[0] if ls else None)) if False else
                     dict(shape=dict(NDev=s[0], StabAt=s[1], NHf=int(s[2]), NPr=s[3], NSt=s[4]),
                          dsts=ls[0]['dsts'], commits=ls[0]['m'], expected_vector_head=ls[0]['res'][:8])
                     for s, ls, _ in oracles[:3] if ls],
            evaluations=n, distinct_nontrivial=len(classes),
            rule='every (destination assignment, status assignment) of each shape; distinct = '
                 '(main prefix length, hotfix prefix lengths, queue sizes) classes produced by the oracle',
            shapes=[dict(NDev=s[0], StabAt=s[1], NHf=int(s[2]), NPr=s[3], NSt=s[4]) for s in shapes],
            oracle='spec/QueueOracle.tla evaluated by TLC (one ASSUME per shard)',
            disagreements=len(bad), exhaustive=True,
            explanation='states = cases enumerated and evaluated by TLC; each one executed on the real QueueCollection'),
            ['in-memory git stands in for the ancestry queries of QueueCollection (real-git runs of the same '
             'selection are part of the system-level exploration, family qstatus)',
             'queue shapes are those add_to_queue builds (well-formed queues)'],
            time.time() - t0, new)
        print('C05: %d cases enumerated by TLC and executed on the real QueueCollection, %d disagreements'
              % (n, len(bad)))
        return 1 if new else 0
    finally:
        shutil.rmtree(scratch, ignore_errors=True)
