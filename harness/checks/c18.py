"""C18 - branch names are classified unambiguously and robot names round-trip.

Oracle: spec/Names.tla (token-level grammar) enumerated by TLC; implementation: branch_factory,
is_cascade_producer / is_cascade_consumer, and the real name builders (get_integration_branches,
get_queue_integration_branch) whose results are parsed back.
"""
import json
import os
import re
import shutil
import sys
import time
from types import SimpleNamespace

from .. import tlc, evidence, explore

REPO = explore.REPO
TAILS = {'': '', 't_word': 'foo', 't_dash_word': '-some-thing', 't_slash': '/sub/dir', 't_dots': '.1.2',
         't_digits': '123', 't_underscore': '_x_y', 't_robot_w': 'w/5.1/bugfix/x',
         't_robot_q': 'q/w/7/5.1/bugfix/y', 't_version': '4.3.18', 't_deep': 'a/b-1/c', 't_dash_digits': '-12'}
KEYS = {'none': '', 'upper': 'TEST-12', 'lower': 'test-12', 'digits': '12-3'}
BAD = {-1: '', -2: '4.3.', -3: '1.2.3.4.5', -4: 'a.b', -5: '.4.3', -6: 'v4.3'}
PREFIX = {'qw': 'q/w', 'unknown': 'foo', 'bare': 'bare'}
CLASSES = {'StabilizationBranch': 'stabilization', 'DevelopmentBranch': 'development', 'ReleaseBranch': 'release',
           'QueueBranch': 'queue', 'QueueIntegrationBranch': 'queue_integration', 'FeatureBranch': 'feature',
           'HotfixBranch': 'hotfix', 'LegacyHotfixBranch': 'legacy_hotfix', 'IntegrationBranch': 'integration',
           'UserBranch': 'user'}


def ver(v):
    return BAD[v[0]] if v[0] < 0 else '.'.join(str(x) for x in v)


def label(s):
    return KEYS[s['key']] + TAILS[s['tail']]


def expected_key(s):
    if s['key'] == 'none':
        return None
    k = KEYS[s['key']]
    m = re.match(r'^\d+', TAILS[s['tail']])
    return (k + (m.group(0) if m else '')).upper()


def render(s):
    p = PREFIX.get(s['p'], s['p'])
    if s['form'] == 'bare':
        return p
    if s['form'] == 'labelled':
        return '%s/%s' % (p, label(s))
    if s['form'] == 'versioned':
        return '%s/%s' % (p, ver(s['v']))
    src = '%s/%s' % (PREFIX.get(s['sp'], s['sp']), label(s))
    if s['p'] == 'w':
        return 'w/%s/%s' % (ver(s['v']), src)
    return 'q/w/%d/%s/%s' % (s['id'], ver(s['v']), src)


class FakeRepo:
    def cmd(self, *a, **k):
        return ''

    def checkout(self, name):
        return None


def check(tier, seed):
    t0 = time.time()
    scratch = explore.make_scratch('c18')
    try:
        cfg = os.path.join(scratch, 'names.cfg')
        open(cfg, 'w').write('SPECIFICATION Spec\n')
        out = os.path.join(scratch, 'names.ndjson')
        r = tlc.run_tlc('Names.tla', cfg, scratch, workers=1, env={'OUT_FILE': out})
        if not os.path.exists(out):
            raise tlc.TLCError('Names oracle produced nothing:\n' + r['out'][-3000:])
        structs = [json.loads(l) for l in open(out) if l.strip()]
    finally:
        shutil.rmtree(scratch, ignore_errors=True)
    if REPO not in sys.path:
        sys.path.insert(0, REPO)
    import logging
    logging.disable(logging.CRITICAL)
    from bert_e.workflow.gitwaterflow import branches as gwfb
    from bert_e.workflow.gitwaterflow import integration as gwfi, queueing as gwfq
    from bert_e import exceptions as exc
    bad = []
    n = nrt = 0
    classes = set()
    seen = {}
    for s in structs:
        name = render(s)
        if name in seen and seen[name] != s['kind']:
            bad.append(dict(name=name, what='grammar ambiguous in the oracle itself', kinds=[seen[name], s['kind']]))
        seen[name] = s['kind']
        try:
            b = gwfb.branch_factory(None, name)
            kind = CLASSES[type(b).__name__]
        except exc.UnrecognizedBranchPattern:
            b, kind = None, 'rejected'
        n += 1
        classes.add((s['form'], s['kind']))
        prob = None
        if kind != s['kind']:
            prob = 'kind'
        elif b is not None:
            if bool(b.can_be_destination) != s['dest'] or bool(b.cascade_consumer) != s['dest']:
                prob = 'destination flag'
            elif gwfb.is_cascade_consumer(name) != s['dest'] or gwfb.is_cascade_producer(name) != s['producer']:
                prob = 'producer/consumer'
            elif s['form'] == 'versioned' and kind in ('development', 'stabilization', 'hotfix', 'release', 'queue'):
                v = s['v']
                got = [b.major, b.minor] + ([b.micro] if len(v) > 2 else []) + ([b.hfrev] if len(v) > 3 else [])
                want = list(v) + ([None] if len(v) == 1 else [])
                if got[:len(want)] != want or b.version != ver(v):
                    prob = 'version attributes %r vs %r' % (got, want)
            elif kind == 'feature' and s['form'] == 'labelled':
                if b.jira_issue_key != expected_key(s) or b.label != label(s) or b.prefix != s['p']:
                    prob = 'feature attributes key=%r label=%r' % (b.jira_issue_key, b.label)
            elif kind in ('integration', 'queue_integration'):
                src = '%s/%s' % (s['sp'], label(s))
                if b.version != ver(s['v']) or b.feature_branch != src or \
                        (kind == 'queue_integration' and b.pr_id != s['id']):
                    prob = 'round trip: version=%r src=%r id=%r' % (b.version, b.feature_branch,
                                                                     getattr(b, 'pr_id', None))
        if prob:
            bad.append(dict(name=name, expected=s['kind'], got=kind, problem=prob))
        # the robot's own constructors, parsed back (every valid source name x every valid version)
        if s['form'] == 'robot' and s['kind'] != 'rejected':
            src = '%s/%s' % (s['sp'], label(s))
            v = s['v']
            dname = ('development/%s' % ver(v)) if len(v) <= 2 else ('stabilization/%s' % ver(v)) if len(v) == 3 \
                else None
            repo = FakeRepo()
            if dname:
                dst = gwfb.branch_factory(repo, dname)
                other = gwfb.branch_factory(repo, 'development/99.9')
                job = SimpleNamespace(git=SimpleNamespace(repo=repo, src_branch=gwfb.branch_factory(repo, src),
                                                          cascade=SimpleNamespace(dst_branches=[dst, other])),
                                      pull_request=SimpleNamespace(src_branch=src, id=s['id']))
                ws = list(gwfi.get_integration_branches(job))
                nrt += 1
                w = ws[0]
                back = gwfb.branch_factory(repo, w.name)
                if not (isinstance(back, gwfb.IntegrationBranch) and back.version == dst.version and
                        back.feature_branch == src):
                    bad.append(dict(name=w.name, problem='w/ name does not parse back', src=src, version=dst.version))
                q = gwfq.get_queue_integration_branch(job, s['id'], w)
                nrt += 1
                if not (isinstance(q, gwfb.QueueIntegrationBranch) and q.pr_id == s['id'] and
                        q.version == dst.version and q.feature_branch == src):
                    bad.append(dict(name=q.name, problem='q/w name does not parse back', src=src, id=s['id']))
    rdir = os.path.join(explore.VERIF, 'replays')
    os.makedirs(rdir, exist_ok=True)
    viol = []
    for i, b in enumerate(bad[:100]):
        p = os.path.join(rdir, 'C18_%d.json' % i)
        json.dump(b, open(p, 'w'), indent=1)
        viol.append(dict(sig=dict(clause='C18.names', **{k: str(v) for k, v in b.items()}), replay=p))
    new = evidence.report('C18', viol, rdir)
    evidence.write('C18', tier, seed, 'model_checking', dict(
        states=len(structs), transitions=len(structs), traces_validated_against_impl=n + nrt,
        samples=[dict(structure=structs[i], rendered=render(structs[i])) for i in (0, len(structs) // 2, -1)],
        evaluations=n + nrt, distinct_nontrivial=len(classes),
        rule='every token structure of spec/Names.tla (prefix x version shape x label, bare names, robot names '
             'w/.. and q/w/..) rendered and classified by branch_factory; round trips through the real name '
             'builders; distinct = (form, expected kind) classes',
        distinct_names=len(seen), round_trips=nrt, disagreements=len(bad), exhaustive=True,
        explanation='spec/Names.tla enumerated by TLC'),
        ['the grammar is bounded (labels are built from a dozen rest tokens); character-level regular-expression '
         'behaviour is reached only through the rendered strings'],
        time.time() - t0, new)
    print('C18: %d names classified, %d round trips, %d disagreements' % (n, nrt, len(bad)))
    return 1 if new else 0
