"""C07 - only the right people can switch options on through comments.

Oracle: spec/Reactor.tla gives, for every comment list of the bounded grammar, the constraints the four
implications of the property put on the outcome (must block / which privileged options may be effective /
may `approve` be effective / is anything addressed to the robot).  Implementation: the real handle_comments
(real Reactor, real registry built by gwf.setup) on a real PullRequestJob with stub comments; every case is
run with the author not an admin and with the author listed as admin.
"""
import json
import multiprocessing as mp
import os
import shutil
import sys
import time
from types import SimpleNamespace

from .. import tlc, evidence, explore

REPO = explore.REPO
BLOCK = {'UnknownCommand', 'NotEnoughCredentials', 'NotAuthor', 'IncorrectCommandSyntax'}
PRIV = ['bypass_peer_approval', 'bypass_build_status']
LEAD = {'': '', 'ws': '  ', 'text': 'hello '}
TRAIL = {'': '', 'ws': '  ', 'word': ' thanks'}


def render(c):
    kws = [k['k'] + ('=' + k['arg'] if k['arg'] else '') for k in c['kws']]
    if c['who'] == 'robot':
        return 'Hello, I am the robot. Status report.'
    if c['syn'] == 'at':
        body = '@robot ' + c['sep'].join(kws)
    elif c['syn'] == 'atcolon':
        body = '@robot: ' + c['sep'].join(kws)
    elif c['syn'] == 'slash':
        body = c['sep'].join('/' + k for k in kws)
    else:
        body = c['sep'].join(kws)
    return LEAD[c['lead']] + body + TRAIL[c['trail']]


def _oracle(args):
    scratch, size, shard, nshard = args
    cfg = os.path.join(scratch, 'reactor_%s_%d.cfg' % (size, shard))
    open(cfg, 'w').write('SPECIFICATION Spec\n')
    out = os.path.join(scratch, 'reactor_%s_%d.ndjson' % (size, shard))
    r = tlc.run_tlc('Reactor.tla', cfg, scratch, workers=1,
                    env={'OUT_FILE': out, 'SIZE': size, 'SHARD': str(shard), 'NSHARD': str(nshard)}, timeout=7200)
    if not os.path.exists(out):
        raise tlc.TLCError('Reactor oracle produced nothing:\n' + r['out'][-3000:])
    return out


def _worker(args):
    path, lo, hi, scratch = args
    if REPO not in sys.path:
        sys.path.insert(0, REPO)
    import logging
    logging.disable(logging.CRITICAL)
    import bert_e.exceptions as exc
    exc.render = lambda template, **kw: template
    from bert_e.settings import setup_settings
    from bert_e.job import PullRequestJob
    from bert_e.reactor import Reactor
    from bert_e.workflow import gitwaterflow as gwf
    from bert_e.workflow.gitwaterflow import commands

    class ResetCalled(exc.SilentException):
        pass

    def fake_reset(job, force=False):
        raise ResetCalled()
    commands._reset = fake_reset
    gwf.setup({})
    defaults = {k: o.default for k, o in Reactor.get_options().items()}
    bes = []
    for admins in (['admin'], ['admin', 'author']):
        y = ['repository_owner: o', 'repository_slug: s', 'repository_host: mock', 'robot: robot',
             'robot_email: r@x.org', 'admins:'] + ['  - ' + a for a in admins]
        yp = os.path.join(scratch, 'c07_%d_%d.yml' % (os.getpid(), len(admins)))
        open(yp, 'w').write('\n'.join(y) + '\n')
        st = setup_settings(yp)

        class BE:
            project_repo = object()
            git_repo = object()
            client = SimpleNamespace(login='robot')
        BE.settings = st
        bes.append(BE)
    n = 0
    bad = []
    classes = set()
    with open(path) as f:
        for i, ln in enumerate(f):
            if i < lo or i >= hi or not ln.strip():
                continue
            case = json.loads(ln)
            comments = [SimpleNamespace(author=c['who'], text=render(c)) for c in case['cs']]
            for ai, BE in enumerate(bes):
                pr = SimpleNamespace(author='author', id=1, comments=comments)
                job = PullRequestJob(bert_e=BE, pull_request=pr)
                try:
                    gwf.handle_comments(job)
                    outcome = 'normal'
                except exc.BertE_Exception as e:
                    outcome = type(e).__name__
                except Exception as e:                                  # noqa
                    outcome = 'CRASH ' + type(e).__name__
                n += 1
                classes.add((case['block'], len(case['priv']), case['approve'], case['addressed'],
                             outcome if outcome in BLOCK else 'x'))
                prob = None
                if outcome.startswith('CRASH'):
                    prob = outcome
                elif case['block'] and outcome not in BLOCK:
                    prob = 'a comment that must block did not block (outcome %s)' % outcome
                elif outcome == 'normal':
                    eff = [k for k in PRIV if job.settings[k]]
                    if not set(eff) <= set(case['priv']):
                        prob = 'privileged option effective without an admin comment: %s' % eff
                    elif job.settings['approve'] and not case['approve']:
                        prob = 'approve effective although the author did not write it'
                    elif not case['addressed']:
                        ch = [k for k, d in defaults.items() if job.settings[k] != d]
                        if ch:
                            prob = 'text not addressed to the robot changed options %s' % ch
                if prob:
                    bad.append(dict(comments=[dict(author=c.author, text=c.text) for c in comments],
                                    author_is_admin=bool(ai), outcome=outcome, problem=prob,
                                    oracle={k: v for k, v in case.items() if k != 'cs'}))
    return n, bad[:30], len(bad), sorted(classes)


def grants_half(scratch, tier, seed):
    """spec/Grants.tla: per-author tables of the settings file; a bypass key is in force for the author of a pull
    request (without any comment) exactly when the author's own entry lists it."""
    cfg = os.path.join(scratch, 'grants.cfg')
    open(cfg, 'w').write('SPECIFICATION Spec\n')
    out = os.path.join(scratch, 'grants.ndjson')
    r = tlc.run_tlc('Grants.tla', cfg, scratch, workers=1, env={'OUT_FILE': out})
    if not os.path.exists(out):
        raise tlc.TLCError('Grants oracle produced nothing:\n' + r['out'][-3000:])
    rows = [json.loads(l) for l in open(out) if l.strip()]
    if REPO not in sys.path:
        sys.path.insert(0, REPO)
    import logging
    logging.disable(logging.CRITICAL)
    from bert_e.settings import setup_settings, PrAuthorsOptions
    from bert_e.job import PullRequestJob
    from bert_e.reactor import Reactor
    from bert_e.workflow import gitwaterflow as gwf
    from bert_e.workflow.gitwaterflow import utils
    gwf.setup({})
    ALL = list(PrAuthorsOptions.BYPASS_LIST)
    rotations = range(7) if tier == 'thorough' else [(seed + j * 3) % 7 for j in range(2)]
    yp = os.path.join(scratch, 'grants.yml')
    n = 0
    bad = []
    for rot in rotations:
        real = {k: ALL[(2 * k + rot) % 7] for k in (1, 2, 3)}
        for row in rows:
            y = ['repository_owner: o', 'repository_slug: s', 'repository_host: mock', 'robot: robot',
                 'robot_email: r@x.org', 'admins:', '  - admin', 'pr_author_options:']
            for name, keys in zip(row['names'], row['keys']):
                y.append('  %s:%s' % (name, '' if keys else ' []'))
                y += ['    - ' + real[k] for k in keys]
            open(yp, 'w').write('\n'.join(y) + '\n')
            st = setup_settings(yp)

            class BE:
                project_repo = object()
                git_repo = object()
                client = SimpleNamespace(login='robot')
            BE.settings = st
            for who, gr in row['granted'].items():
                exp = sorted(real[k] for k in gr)
                job = PullRequestJob(bert_e=BE, pull_request=SimpleNamespace(author=who, id=1, comments=[]))
                Reactor().init_settings(job)
                n += 1
                got_tab = sorted(k for k, v in job.author_bypass.items() if v)
                got_fn = sorted(k for k in ALL if hasattr(utils, k) and getattr(utils, k)(job))
                got_act = sorted(k for k in job.active_options if k.startswith('bypass_'))
                exp_fn = sorted(k for k in exp if hasattr(utils, k))
                if got_tab != exp or got_fn != exp_fn or got_act != exp:
                    bad.append(dict(table=[[nm, [real[k] for k in ks]] for nm, ks in zip(row['names'], row['keys'])],
                                    pr_author=who, granted_by_settings=exp, author_bypass=got_tab,
                                    bypass_helpers_true=got_fn, active_options=got_act,
                                    problem='privileged options in force without a comment differ from the grants of '
                                            'the per-author settings'))
    return len(rows), n, bad


def check(tier, seed):
    t0 = time.time()
    scratch = explore.make_scratch('c07')
    try:
        sizes = [('one', 8), ('two', 4)] + ([('three', 4)] if tier == 'thorough' else [('three', 1)])
        jobs = [(scratch, size, k, ns) for size, ns in sizes for k in range(ns)]
        if tier == 'quick':
            # quick: single comments on 4 of 8 shards (rotated by the seed), pairs in full, triples one shard of 4
            keep = {(seed + j) % 8 for j in range(4)}
            jobs = [j for j in jobs if not (j[1] == 'one' and j[2] not in keep)]
            jobs = [j if j[1] != 'three' else (j[0], j[1], seed % 4, 4) for j in jobs]
        ctx = mp.get_context('fork')
        with ctx.Pool(16) as pool:
            files = pool.map(_oracle, jobs, chunksize=1)
        work = []
        total = 0
        for path in files:
            nl = sum(1 for _ in open(path))
            total += nl
            step = max(1, (nl + 3) // 4)
            for lo in range(0, nl, step):
                work.append((path, lo, lo + step, scratch))
        with ctx.Pool(16) as pool:
            rs = pool.map(_worker, work, chunksize=1)
        sample = json.loads(open(files[0]).readline())
        g_rows, g_n, g_bad = grants_half(scratch, tier, seed)
    finally:
        shutil.rmtree(scratch, ignore_errors=True)
    n = sum(r[0] for r in rs)
    nbad = sum(r[2] for r in rs)
    bad = [b for r in rs for b in r[1]]
    classes = set()
    for r in rs:
        classes |= {tuple(c) for c in r[3]}
    rdir = os.path.join(explore.VERIF, 'replays')
    os.makedirs(rdir, exist_ok=True)
    viol = []
    for i, b in enumerate(bad[:100]):
        p = os.path.join(rdir, 'C07_%d.json' % i)
        json.dump(b, open(p, 'w'), indent=1)
        viol.append(dict(sig=dict(clause='C07.reactor', problem=b['problem'],
                                  comments=' || '.join('%s: %s' % (c['author'], c['text']) for c in b['comments'])),
                         replay=p))
    for i, b in enumerate(g_bad[:50]):
        p = os.path.join(rdir, 'C07_g%d.json' % i)
        json.dump(b, open(p, 'w'), indent=1)
        viol.append(dict(sig=dict(clause='C07.grants', table=json.dumps(b['table']), pr_author=b['pr_author'],
                                  in_force=','.join(b['author_bypass'])), replay=p))
    nbad += len(g_bad)
    n += g_n
    total += g_rows
    new = evidence.report('C07', viol, rdir)
    evidence.write('C07', tier, seed, 'model_checking', dict(
        states=total, transitions=total, traces_validated_against_impl=n,
        samples=[dict(comments=[dict(author=c['who'], text=render(c)) for c in sample['cs']],
                      constraints={k: v for k, v in sample.items() if k != 'cs'})],
        evaluations=n, distinct_nontrivial=len(classes),
        rule='comment lists from spec/Reactor.tla: single comments over 3 authors x 4 syntaxes x 1..3 keywords (22 '
             'keyword tokens incl. =arg variants) x 9 separators x leading/trailing text/whitespace; pairs and '
             'triples over reduced comment sets incl. robot messages, every order; each run with the author '
             'not admin / listed as admin; distinct = (constraints, blocking outcome) classes.  Grants half '
             '(spec/Grants.tla): every per-author table of 1..3 entries over 3 names x subsets of 3 keys, every '
             'entry order, 4 pull-request authors, keys rotated over the 7 real bypass_* keys',
        grant_tables=g_rows, grant_evaluations=g_n,
        exhaustive=(tier == 'thorough'), disagreements=nbad,
        explanation='constraints computed by TLC from the four implications of C07; outcome of the real handle_comments'),
        ['token-level grammar: character-level behaviour only through the rendered strings',
         'reset / force_reset replaced by a sentinel (they need a git repository); message rendering constant',
         'command-line grants are exercised by C04/C06/C11, not here; per-author grants: spec/Grants.tla through the '
         'real settings loader, job.author_bypass, the bypass_* helpers and active_options'],
        time.time() - t0, new)
    print('C07: %d executions of the real handle_comments / settings loader over %d comment lists and grant tables, '
          '%d violations of the implications' % (n, total, nbad))
    return 1 if new else 0
