"""C16 - the robot's credentials never leak into logs, comments or job reports.

Fault plan: spec/Secrets.tla enumerates (job kind, git command index, outcome fail|hang, log level, password
class) over the measured command list of each job kind.  Each cell is executed on the REAL code: a World whose
BertE carries the production git repository object (credential-bearing URL built by the real git-host code,
mask derived by the real BertE.__init__), a `git` wrapper that makes command k fail (non-zero exit) or hang
(timeout) while printing the remote URL as git does; every sink is captured (log records incl. exception
chains, stdout/stderr, job status/details/JSON, pull-request comments) and searched for every form of the
secret.  The GitHub password and GitHub-App flows are driven through a scripted HTTP session.
The verdict is the sentinel search (TLA+ cannot express it, DESIGN.md section 8).
"""
import collections
import contextlib
import io
import json
import logging
import multiprocessing as mp
import os
import random
import shutil
import sys
import time
import traceback
from urllib.parse import quote, quote_plus

from .. import tlc, evidence, explore
from ..families import world as mkworld, CASCADES

REPO = explore.REPO
PASSWORDS = {'plain': 'S3cr3tPassw0rd', 'url_special': 'p@ss/w:rd?x=1&y#z%41+ q',
             'shell_special': "pa$HOME`id`;'\"|&(x)\\n", 'non_ascii': 'pässwörd-日本-ключ'}

# job kinds: prefix steps + the target job
JOBS = {
    'integrate': (('B3', 'queue'), [{"a": "open_pr", "src": "bugfix/TEST-1", "dst": "development/4.3"}],
                  {"a": "eval_pr", "p": 1}),
    'queue': (('B3', 'queue'), [{"a": "open_pr", "src": "bugfix/TEST-1", "dst": "development/4.3"},
                                {"a": "eval_pr", "p": 1}, {"a": "approve", "p": 1, "u": "contrib"},
                                {"a": "approve", "p": 1, "u": "peer1"}, {"a": "eval_pr", "p": 1},
                                {"a": "report_pr", "p": 1, "status": "SUCCESSFUL"}], {"a": "eval_pr", "p": 1}),
    'merge': (('B3', 'queue'), [{"a": "open_pr", "src": "bugfix/TEST-1", "dst": "development/4.3"},
                                {"a": "gate", "p": 1}, {"a": "report_queue", "status": "SUCCESSFUL"}],
              {"a": "eval_commit", "ref": "q/10.0"}),
    'direct': (('B3', 'noqueue'), [{"a": "open_pr", "src": "bugfix/TEST-1", "dst": "development/4.3"},
                                   {"a": "eval_pr", "p": 1}, {"a": "approve", "p": 1, "u": "contrib"},
                                   {"a": "approve", "p": 1, "u": "peer1"},
                                   {"a": "report_pr", "p": 1, "status": "SUCCESSFUL"}], {"a": "eval_pr", "p": 1}),
    'rebuild': (('B3', 'queue'), [{"a": "open_pr", "src": "bugfix/TEST-1", "dst": "development/4.3"},
                                  {"a": "gate", "p": 1}], {"a": "api", "kind": "RebuildQueues"}),
    'create_branch': (('B3', 'queue'), [], {"a": "api", "kind": "CreateBranch", "branch": "development/4.4"}),
    'delete_branch': (('B3', 'queue'), [], {"a": "api", "kind": "DeleteBranch", "branch": "development/4.3"}),
}


def forms(pw):
    return {pw, quote_plus(pw), quote(pw), quote(pw, safe='')}


def run_cell(args):
    cell, scratch, tid = args
    os.environ['PYTHONHASHSEED'] = '0'
    from ..scenario import run_step
    from ..world import World
    out = dict(cell=cell, leaks=[], error=None, ncmd=0, status=None)
    d = os.path.join(scratch, 'c16_%s' % tid)
    w = None
    root = logging.getLogger()
    buf = io.StringIO()
    handler = logging.StreamHandler(buf)
    handler.setFormatter(logging.Formatter('%(levelname)s %(name)s: %(message)s'))
    try:
        (casc, mode), prefix, target = JOBS[cell['job']]
        wc = mkworld(casc, mode)
        logging.disable(logging.CRITICAL)
        w = World(d, wc['branches'], settings=wc.get('settings'))
        pw = PASSWORDS[cell['pw']]
        w.install_credentials(pw, host=cell.get('host', 'bitbucket'))
        res = []
        for st in prefix:
            run_step(w, dict(st), res)
        logging.disable(logging.NOTSET)
        root.addHandler(handler)
        old_level = root.level
        root.setLevel(getattr(logging, cell['level']))
        so, se = io.StringIO(), io.StringIO()
        if cell.get('k') is not None:
            w.cmd_fault = dict(at=cell['k'], mode=cell['outcome'])
        try:
            with contextlib.redirect_stdout(so), contextlib.redirect_stderr(se):
                r = run_step(w, dict(target), res)
        finally:
            w.cmd_fault = None
            root.removeHandler(handler)
            root.setLevel(old_level)
            logging.disable(logging.CRITICAL)
        out['ncmd'] = len(w.cmdlog)
        out['cmd'] = w.cmdlog[cell['k']][:80] if cell.get('k') is not None and cell['k'] < len(w.cmdlog) else None
        out['status'] = r['status'] if isinstance(r, dict) else None
        done = w.berte.tasks_done[0] if w.berte.tasks_done else None
        def safe(fn):
            try:
                return fn()
            except Exception:          # job JSON cannot be rendered (e.g. a branch object in the job settings)
                return ''
        sinks = {
            'log records': buf.getvalue(),
            'stdout': so.getvalue(), 'stderr': se.getvalue(),
            'job status/details': '%s %s' % (getattr(done, 'status', ''), getattr(done, 'details', '')),
            'job json': safe(done.as_json) if done is not None else '',
            'jobs api': safe(w.berte.get_jobs_as_json),
            'comments': '\n'.join(c.content['raw'] for c in w.mock.Comment.items),
        }
        for name, text in sinks.items():
            for f in forms(pw) | set(w.extra_secrets):
                if f and f in text:
                    line = next((ln for ln in text.splitlines() if f in ln), '')
                    out['leaks'].append(dict(sink=name, where=line.replace(f, '<SECRET>')[:220]))
                    break
    except Exception:
        out['error'] = traceback.format_exc()[-1500:]
    finally:
        root.removeHandler(handler)
        if w is not None:
            w.close()
        shutil.rmtree(d, ignore_errors=True)
    return out


# ----------------------------------------------------------------------------------- GitHub flows
def github_flows():
    """Password and App authentication through a scripted HTTP session, including failing responses."""
    if REPO not in sys.path:
        sys.path.insert(0, REPO)
    from cryptography.hazmat.primitives import serialization
    from cryptography.hazmat.primitives.asymmetric import rsa
    from cryptography.hazmat.backends import default_backend
    from requests import HTTPError
    from bert_e.git_host import github
    key = rsa.generate_private_key(public_exponent=65537, key_size=2048, backend=default_backend())
    pem = key.private_bytes(serialization.Encoding.PEM, serialization.PrivateFormat.PKCS8,
                            serialization.NoEncryption()).decode()
    results = []
    seen_secrets = set()

    class Resp:
        def __init__(self, code, data=None, url='http://api/x'):
            self.status_code = code
            self.text = json.dumps(data if data is not None else {})
            self.headers = {}
            self.url = url
            self.request = type('R', (), {'method': 'GET', 'url': url})()
            self.elapsed = type('E', (), {'microseconds': 1})()

        def json(self):
            return json.loads(self.text)

        def raise_for_status(self):
            if self.status_code >= 400:
                raise HTTPError('%d Client Error for url: %s' % (self.status_code, self.url), response=self)

    class Session:
        def __init__(self, script):
            self.script = script
            self.headers = {}
            self.calls = []

        def _do(self, method, url, **kw):
            hdrs = dict(self.headers)
            hdrs.update(kw.get('headers') or {})
            auth = hdrs.get('Authorization', '')
            if auth:
                seen_secrets.add(auth.split(' ', 1)[-1])
            self.calls.append((method, url))
            code, data = self.script(method, url)
            return Resp(code, data, url)

        def get(self, url, **kw):
            return self._do('GET', url, **kw)

        def post(self, url, **kw):
            return self._do('POST', url, **kw)

        def put(self, url, **kw):
            return self._do('PUT', url, **kw)

        def delete(self, url, **kw):
            return self._do('DELETE', url, **kw)

    def flow(name, app, script, action):
        pw = 'gh-' + PASSWORDS['url_special']
        buf = io.StringIO()
        root = logging.getLogger()
        h = logging.StreamHandler(buf)
        h.setFormatter(logging.Formatter('%(levelname)s %(name)s: %(message)s'))
        logging.disable(logging.NOTSET)
        root.addHandler(h)
        old = root.level
        root.setLevel(logging.DEBUG)
        so, se = io.StringIO(), io.StringIO()
        exc_text = ''
        seen_secrets.clear()
        try:
            with contextlib.redirect_stdout(so), contextlib.redirect_stderr(se):
                try:
                    kw = dict(app_id=1, installation_id=7, private_key=pem) if app else {}
                    github.Client._get_installation_token.cache_clear()
                    orig_sess = github.base.BertESession
                    github.base.BertESession = lambda: Session(script)      # scripted from the constructor on
                    try:
                        c = github.Client(login='robot', password=pw, email='r@x.org', base_url='http://api', **kw)
                    finally:
                        github.base.BertESession = orig_sess
                    action(c)
                except Exception as e:                           # noqa
                    exc_text = ''.join(traceback.format_exception(type(e), e, e.__traceback__))
        finally:
            root.removeHandler(h)
            root.setLevel(old)
            logging.disable(logging.CRITICAL)
        secrets = {pw, quote_plus(pw)} | {s for s in seen_secrets if len(s) > 8}
        sinks = {'log records': buf.getvalue(), 'stdout': so.getvalue(), 'stderr': se.getvalue(),
                 'exception text': exc_text}
        leaks = []
        for sname, text in sinks.items():
            for s in secrets:
                if s and s in text:
                    line = next((ln for ln in text.splitlines() if s in ln), '')
                    leaks.append(dict(sink=sname, where=line.replace(s, '<SECRET>')[:200]))
                    break
        results.append(dict(flow=name, leaks=leaks, secrets_in_play=len(secrets)))

    tok = 'ghs_INSTALLATIONTOKEN0123456789abcdef'

    def ok_script(method, url):
        if url.endswith('/access_tokens'):
            return 201, {'token': tok}
        if '/repos/' in url:
            return 200, {'name': 'slug', 'owner': {'id': 1, 'login': 'owner'}, 'full_name': 'owner/slug'}
        return 200, {}

    def fail_script(code):
        def s(method, url):
            if url.endswith('/access_tokens'):
                return 201, {'token': tok}
            return code, {'message': 'Bad credentials'}
        return s

    def token_fail(method, url):
        if url.endswith('/access_tokens'):
            return 401, {'message': 'A JSON web token could not be decoded'}
        return 200, {}

    def use(c):
        _ = c.headers
        c.get('/repos/owner/slug')
        c.post('/repos/owner/slug/issues/1/comments', data='{}')

    flow('password / ok', False, ok_script, use)
    flow('password / 401', False, fail_script(401), use)
    flow('password / 404', False, fail_script(404), use)
    flow('app / ok', True, ok_script, use)
    flow('app / token request refused', True, token_fail, use)
    flow('app / 401 on api call', True, fail_script(401), use)
    return results


def check(tier, seed):
    t0 = time.time()
    scratch = explore.make_scratch('c16')
    rng = random.Random(seed)
    try:
        ctx = mp.get_context('fork')
        # 1. baseline: number of git commands of each job kind (with credentials installed)
        base = [dict(job=j, k=None, outcome='none', level='DEBUG', pw='url_special') for j in JOBS]
        with ctx.Pool(16, maxtasksperchild=1) as pool:
            bouts = pool.map(run_cell, [(c, scratch, 'b%d' % i) for i, c in enumerate(base)], chunksize=1)
        for o in bouts:
            if o['error']:
                print('MACHINERY FAILURE in the baseline run of %s:\n%s' % (o['cell']['job'], o['error']))
                return 2
        ncmd = {o['cell']['job']: o['ncmd'] for o in bouts}
        # 2. the plan, from TLC
        mod = os.path.join(scratch, 'MC_Secrets.tla')
        with open(mod, 'w') as f:
            f.write('---- MODULE MC_Secrets ----\nEXTENDS Secrets\nMCN == %s\n====\n' %
                    ' @@ '.join('("%s" :> %d)' % (j, n) for j, n in sorted(ncmd.items())))
        shutil.copy(os.path.join(tlc.SPEC_DIR, 'Secrets.tla'), scratch)
        cfg = os.path.join(scratch, 'MC_Secrets.cfg')
        open(cfg, 'w').write('SPECIFICATION Spec\nCONSTANTS\n NCmd <- MCN\n ChainUnmasked = FALSE\n PrintHeaders = FALSE\n')
        out = os.path.join(scratch, 'plan.ndjson')
        import subprocess
        p = subprocess.run(['java', '-XX:+UseParallelGC', '-cp', tlc.JAR + ':' + tlc.CM, 'tlc2.TLC', '-config',
                            'MC_Secrets.cfg', '-workers', '1', '-metadir', os.path.join(scratch, 'meta'),
                            '-noGenerateSpecTE', 'MC_Secrets.tla'], cwd=scratch, stdout=subprocess.PIPE,
                           stderr=subprocess.STDOUT, universal_newlines=True,
                           env=dict(os.environ, OUT_FILE=out, TMPDIR=scratch,
                                    JAVA_TOOL_OPTIONS='-Djava.io.tmpdir=%s' % scratch))
        if not os.path.exists(out):
            raise tlc.TLCError('Secrets plan not produced:\n' + p.stdout[-2000:])
        plan = [json.loads(l) for l in open(out) if l.strip()]
        # 3. selection
        if tier == 'quick':
            sel = []
            by = collections.defaultdict(list)
            for c in plan:
                by[(c['job'], c['outcome'])].append(c)
            for key, cells in sorted(by.items()):
                rng.shuffle(cells)
                # always include the commands whose argv carries the URL (clone / remote add / ls-remote): k small
                sel += cells[:6 if key[1] == 'fail' else 4]
        else:
            sel = [c for c in plan if c['outcome'] == 'fail' and (c['k'] * 7 + len(c['pw'])) % 3 == 0] + \
                  [c for c in plan if c['outcome'] == 'hang' and (c['k'] * 5 + len(c['level'])) % 4 == 0]
        # the same plan cells on the other hosts' URL builders (GitHub password / GitHub App), a few each
        extra = []
        for hostkind in ('github', 'github_app'):
            for c in [x for x in plan if x['job'] in ('create_branch', 'integrate') and x['k'] in (0, 1, 5, 6, 7)
                      and x['level'] == 'DEBUG' and x['pw'] == 'url_special']:
                extra.append(dict(c, host=hostkind))
        sel += extra if tier == 'thorough' else extra[:12] + extra[-12:]
        with ctx.Pool(16, maxtasksperchild=1) as pool:
            outs = pool.map(run_cell, [(c, scratch, 'x%d' % i) for i, c in enumerate(sel)], chunksize=1)
        gh = github_flows()
    finally:
        shutil.rmtree(scratch, ignore_errors=True)
    errs = [o for o in outs if o['error']]
    if len(errs) > len(outs) // 4:
        print('MACHINERY FAILURE: %d of %d cells failed in the harness; first:\n%s' % (len(errs), len(outs), errs[0]['error']))
        return 2
    rdir = os.path.join(explore.VERIF, 'replays')
    os.makedirs(rdir, exist_ok=True)
    viol = []
    for o in outs:
        for lk in o['leaks']:
            sig = dict(clause='C16.leak', flow='git', job=o['cell']['job'], outcome=o['cell']['outcome'],
                       sink=lk['sink'], cmd=(o.get('cmd') or '').split(' http')[0][:40], level=o['cell']['level'],
                       where=lk['where'])
            p = os.path.join(rdir, 'C16_%d.json' % len(viol))
            json.dump(dict(cell=o['cell'], leak=lk, status=o['status']), open(p, 'w'), indent=1)
            viol.append(dict(sig=sig, replay=p))
    for g in gh:
        for lk in g['leaks']:
            p = os.path.join(rdir, 'C16_%d.json' % len(viol))
            json.dump(g, open(p, 'w'), indent=1)
            viol.append(dict(sig=dict(clause='C16.leak', flow='github ' + g['flow'], sink=lk['sink'], where=lk['where']),
                             replay=p))
    new = evidence.report('C16', viol, rdir)
    kinds = collections.Counter((o['cell']['job'], o['cell']['outcome'], o['status']) for o in outs)
    evidence.write('C16', tier, seed, 'fault_enumeration', dict(
        evaluations=len(outs) + len(gh), distinct_nontrivial=len(kinds),
        rule='cells of the fault plan of spec/Secrets.tla (job kind x git command index x fail|hang x DEBUG|INFO x '
             'password class; %d cells enumerated, %d executed this run) + 6 scripted GitHub authentication flows; '
             'distinct = (job kind, outcome, resulting job status)' % (len(plan), len(outs)),
        samples=[dict(cell=o['cell'], command=o.get('cmd'), job_status=o['status'], leaks=o['leaks']) for o in outs[:3]]
                + gh[:2],
        plan_cells=len(plan), commands_per_job=ncmd, harness_errors=len(errs),
        sinks=['log records (with exception chains)', 'stdout', 'stderr', 'job status/details', 'job JSON',
               'jobs API JSON', 'pull request comments'], github_flows=[g['flow'] for g in gh], exhaustive=False,
        explanation='verdict = sentinel search in captured sinks; TLA+ provides the plan and the design claim'),
        ['the mock git host serves the API side; the git side uses the production URL/mask objects mapped to the local '
         'bare repository with url.<path>.insteadOf', 'a `git` wrapper prints the remote URL the way git does on '
         'authentication / transport errors', 'GitHub HTTP is a scripted session (no network)'],
        time.time() - t0, new)
    print('C16: %d fault cells executed (%d in plan), %d GitHub flows, %d leaks' % (len(outs), len(plan), len(gh), len(viol)))
    return 1 if new else 0
