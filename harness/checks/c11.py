"""C11 - the ticket gate admits a pull request exactly when its Jira issue fits.

Oracle: spec/Jira.tla (from the statement) evaluated by TLC over the whole domain; implementation: the
real jira_checks on a stub job with real settings (loader), real FeatureBranch / destination branch
objects and a fake Jira issue (404 for an absent one).  Bypass is exercised through its four sources.
"""
import json
import os
import shutil
import sys
import time
from types import SimpleNamespace

from .. import tlc, evidence, explore

REPO = explore.REPO
VERS = ['4.3.19', '5.1.5', '10.0.1', '5.1.5_hf7', '4.2.17.1', '5.1.5.0']
EXPECTED = [['4.3.19', '5.1.5', '10.0.1'], ['5.1.5', '10.0.1'], ['10.0.1'], ['4.2.17.1']]
DSTS = [['development/4.3', 'development/5.1', 'development/10.0'], ['development/5.1', 'development/10.0'],
        ['development/10.0'], ['hotfix/4.2.17']]
NEAR_MISS = ['bug', 'bugfixes', 'BUGFIX', 'feature', 'b', 'ugfix']      # = Jira.tla NearMiss
SRC = {'none': 'bugfix/some-fix', 'upper': 'bugfix/TEST-12-fix', 'lower': 'bugfix/test-12-fix',
       'other': 'bugfix/OTHER-3-fix'}


def check(tier, seed):
    t0 = time.time()
    scratch = explore.make_scratch('c11')
    try:
        cfg = os.path.join(scratch, 'jira.cfg')
        open(cfg, 'w').write('SPECIFICATION Spec\n')
        out = os.path.join(scratch, 'jira.ndjson')
        r = tlc.run_tlc('Jira.tla', cfg, scratch, workers=1, env={'OUT_FILE': out})
        if not os.path.exists(out):
            raise tlc.TLCError('Jira oracle produced nothing:\n' + r['out'][-3000:])
        lines = [json.loads(l) for l in open(out) if l.strip()]
        if REPO not in sys.path:
            sys.path.insert(0, REPO)
        import logging
        logging.disable(logging.CRITICAL)
        import bert_e.exceptions as exc
        exc.render = lambda template, **kw: template
        from jira.exceptions import JIRAError
        from bert_e.settings import setup_settings
        from bert_e.job import PullRequestJob
        from bert_e.reactor import Reactor
        from bert_e.workflow import gitwaterflow as gwf
        from bert_e.workflow.gitwaterflow import jira as gj, branches as gwfb
        state = {}

        class FakeIssue:
            def __init__(self, account_url, issue_id, email, token):
                if state['issue'] == 'absent':
                    raise JIRAError(status_code=404, text='not found')
                self.key = issue_id
                self.fields = SimpleNamespace(issuetype=SimpleNamespace(name=state['issue']),
                                              fixVersions=[SimpleNamespace(name=v) for v in state['fix']])
        gj.jira_api.JiraIssue = FakeIssue
        n = 0
        bad = []
        classes = set()
        ypath = os.path.join(scratch, 'c11.yml')
        for line in lines:
            # a non-bypassed row is also run with bypass_prefixes made of near misses of the source prefix
            # (Jira.tla NearMiss: PrefixBypassed is list membership of the whole prefix, nothing looser)
            bypass_sources = ['option', 'per-author', 'command line', 'prefix'] if line['bypass'] \
                else ['none', 'near-prefix']
            for src in bypass_sources:
                y = ['repository_owner: o', 'repository_slug: s', 'repository_host: mock', 'robot: robot',
                     'robot_email: r@x.org']
                if line['configured']:
                    y += ['jira_account_url: http://jira', 'jira_email: a@b.c', 'jira_keys:', '  - TEST']
                if line['types']:
                    y += ['prefixes:', '  Bug: bugfix', '  Story: feature']
                if line['disableVer']:
                    y += ['disable_version_checks: true']
                if src == 'prefix':
                    y += ['bypass_prefixes:', '  - bugfix']
                if src == 'near-prefix':
                    y += ['bypass_prefixes:'] + ['  - ' + x for x in NEAR_MISS]
                y += ['pr_author_options:', '  aaa_other:', '    - bypass_jira_check',
                      '  author:', '    - bypass_build_status', '    - bypass_peer_approval']
                if src == 'per-author':
                    y += ['    - bypass_jira_check']
                open(ypath, 'w').write('\n'.join(y) + '\n')
                settings = setup_settings(ypath)
                settings['jira_token'] = 'tok'

                class BE:
                    project_repo = object()
                    git_repo = object()
                BE.settings = settings
                gwf.setup({'bypass_jira_check': True} if src == 'command line' else {})
                e = line['e'] - 1
                dsts = [gwfb.branch_factory(None, d) for d in DSTS[e]]
                srcb = gwfb.branch_factory(None, SRC[line['key']])
                for x, exp in enumerate(line['res']):
                    state['issue'] = line['issue']
                    state['fix'] = [VERS[i] for i in range(6) if (x >> i) & 1]
                    job = PullRequestJob(bert_e=BE, pull_request=SimpleNamespace(author='author', id=1))
                    Reactor().init_settings(job)
                    if src == 'option':
                        job.settings['bypass_jira_check'] = True
                    job.git.src_branch = srcb
                    job.git.cascade = SimpleNamespace(dst_branches=dsts, target_versions=list(EXPECTED[e]))
                    try:
                        gj.jira_checks(job)
                        got = 'pass'
                    except exc.TemplateException as err:
                        got = type(err).__name__
                    n += 1
                    classes.add((exp, line['key'], line['issue'], line['e']))
                    if got != exp:
                        bad.append(dict(config={k: v for k, v in line.items() if k != 'res'}, bypass_source=src,
                                        fix_versions=state['fix'], expected_versions=EXPECTED[e],
                                        source_branch=SRC[line['key']], expected=exp, got=got))
                gwf.setup({})
    finally:
        shutil.rmtree(scratch, ignore_errors=True)
    rdir = os.path.join(explore.VERIF, 'replays')
    os.makedirs(rdir, exist_ok=True)
    viol = []
    for i, b in enumerate(bad[:100]):
        p = os.path.join(rdir, 'C11_%d.json' % i)
        json.dump(b, open(p, 'w'), indent=1)
        viol.append(dict(sig=dict(clause='C11.gate', expected=b['expected'], got=b['got'],
                                  fix=','.join(b['fix_versions']), cfg=json.dumps(b['config'], sort_keys=True)),
                         replay=p))
    new = evidence.report('C11', viol, rdir)
    cases = len(lines) * 64
    evidence.write('C11', tier, seed, 'model_checking', dict(
        states=cases, transitions=cases, traces_validated_against_impl=n,
        samples=[dict(config={k: v for k, v in lines[0].items() if k != 'res'}, expected_vector_head=lines[0]['res'][:6])],
        evaluations=n, distinct_nontrivial=len(classes),
        rule='every (configured, bypass [4 sources; non-bypassed rows also with 6 near-miss bypass_prefixes], version checks, issue types configured) x source ticket '
             'fragment (none / upper / lower case / other project) x issue (absent, Bug, Story, unconfigured type) '
             'x every subset of a 6-version fixVersions universe (plain, suffixed, x.y.z.n, x.y.z.0) x 4 expected '
             'version lists (3, 2, 1 development targets, hotfix target); distinct = (outcome, key, issue, targets)',
        disagreements=len(bad), exhaustive=True,
        explanation='spec/Jira.tla evaluated by TLC; each case executed on the real jira_checks'),
        ['the Jira client library is replaced by a fake issue (404 for absent)',
         'expected versions are taken as given (C09 decides how they are computed)',
         '"leaves the repository untouched" is structural here: jira_checks runs before any branch is created '
         '(the system-level exploration runs without Jira configured)'],
        time.time() - t0, new)
    print('C11: %d cases executed on the real jira_checks, %d disagreements' % (n, len(bad)))
    return 1 if new else 0
