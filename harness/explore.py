"""Parallel execution of scenarios on the real code + trace validation by TLC (TraceMon.tla)."""
import hashlib
import json
import multiprocessing as mp
import os
import shutil
import subprocess
import sys
import tempfile
import time

from . import tlc

VERIF = os.path.dirname(os.path.dirname(os.path.abspath(__file__)))
REPO = os.environ.get('VERIF_REPO', '/repo')


def make_scratch(tag='run'):
    base = os.environ.get('VERIF_SCRATCH_BASE', tempfile.gettempdir())
    d = tempfile.mkdtemp(prefix='verif_%s_' % tag, dir=base)
    return d


def tree_hash():
    """Hash of the code under test (HEAD + working-tree diff + untracked python files) and of the
    verification machinery, used as a cache key: a changed tree always re-runs."""
    h = hashlib.sha256()
    for cwd in (REPO,):
        for cmd in ('git rev-parse HEAD', 'git diff HEAD', 'git status --porcelain'):
            p = subprocess.run(cmd, shell=True, cwd=cwd, stdout=subprocess.PIPE,
                               stderr=subprocess.DEVNULL)
            h.update(p.stdout)
        p = subprocess.run('git ls-files --others --exclude-standard', shell=True, cwd=cwd,
                           stdout=subprocess.PIPE, stderr=subprocess.DEVNULL)
        for f in p.stdout.decode().split():
            try:
                h.update(open(os.path.join(cwd, f), 'rb').read())
            except OSError:
                pass
    for sub in ('harness', 'spec', 'bin'):
        for root, _, files in sorted(os.walk(os.path.join(VERIF, sub))):
            if '__pycache__' in root:
                continue
            for f in sorted(files):
                if f.endswith(('.py', '.tla', '.cfg', '.json')) or sub == 'bin':
                    h.update(open(os.path.join(root, f), 'rb').read())
    return h.hexdigest()[:20]


def _worker(args):
    scn, scratch, tid = args
    os.environ['PYTHONHASHSEED'] = '0'
    from .scenario import run_scenario
    import logging
    logging.disable(logging.CRITICAL)
    devnull = open(os.devnull, 'w')
    so, se = sys.stdout, sys.stderr
    sys.stdout = sys.stderr = devnull
    try:
        return run_scenario(scn, scratch, tid=tid)
    finally:
        sys.stdout, sys.stderr = so, se


def run_scenarios(scns, scratch, procs=None, progress=None):
    """Each scenario runs in its own process (the mock host keeps class-level state)."""
    procs = procs or min(16, max(1, os.cpu_count() or 1))
    args = [(s, scratch, i + 1) for i, s in enumerate(scns)]
    ctx = mp.get_context('fork')
    outs = []
    with ctx.Pool(procs, maxtasksperchild=1) as pool:
        for o in pool.imap_unordered(_worker, args, chunksize=1):
            outs.append(o)
            if progress:
                progress(len(outs), len(args))
    outs.sort(key=lambda o: o['tid'])
    return outs


def _mon(args):
    path, scratch = args
    try:
        v, n, r = tlc.run_tracemon(path, scratch)
        return dict(path=path, viol=v, n=n, wall=r['wall_s'], err=None)
    except tlc.TLCError as e:
        return dict(path=path, viol=[], n=0, wall=0, err=str(e))


def validate_files(paths, scratch):
    """Run TraceMon on ndjson files already written. Returns (violations, lines, machinery errors)."""
    paths = [p for p in paths if os.path.exists(p) and os.path.getsize(p) > 0]
    if not paths:
        return [], 0, []
    ctx = mp.get_context('fork')
    with ctx.Pool(min(16, len(paths))) as pool:
        rs = pool.map(_mon, [(p, scratch) for p in paths])
    viol, lines, errs = [], 0, []
    for r in rs:
        if r['err']:
            errs.append(r['err'])
        viol += r['viol']
        lines += r['n']
    return viol, lines, errs


def validate_traces(outs, scratch, shards=16):
    """Write the observation streams as ndjson shards and run TraceMon (TLC) on each shard.
    Returns (violations [(tid,k,clause)], lines, machinery errors)."""
    outs = [o for o in outs if o['trace']]
    shards = max(1, min(shards, len(outs)))
    paths = []
    for s in range(shards):
        part = outs[s::shards]
        if not part:
            continue
        path = os.path.join(scratch, 'traces_%02d.ndjson' % s)
        with open(path, 'w') as f:
            for o in part:
                for rec in o['trace']:
                    f.write(json.dumps(rec) + '\n')
        paths.append(path)
    ctx = mp.get_context('fork')
    with ctx.Pool(min(16, len(paths))) as pool:
        rs = pool.map(_mon, [(p, scratch) for p in paths])
    viol, lines, errs = [], 0, []
    for r in rs:
        if r['err']:
            errs.append(r['err'])
        viol += r['viol']
        lines += r['n']
    return viol, lines, errs
