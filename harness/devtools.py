"""Developer tools (not registered checks): run a slice of the exploration against a tree and print what the
monitors say.  The tree is /repo, or $VERIF_REPO (e.g. a scratch worktree with a candidate change applied).

  python -m harness.devtools scn <substring of scenario id> [--tier quick|thorough] [--seed N]
  python -m harness.devtools sim <BertE.sim*.cfg> <behaviours> <depth> <seed>
  python -m harness.devtools fbase <substring of fault base id> [crash|reject|third|cmdfail]

`scn` runs the scripted scenarios whose id contains the substring; `sim` lets TLC simulate S, replays the behaviours
on the real code (projection compared after every step) and judges the recorded streams; `fbase` runs fault bases
and all their variants.  Output: conformance divergences, harness errors, and the TraceMon clauses violated per scenario.
"""
import collections
import json
import multiprocessing as mp
import os
import random
import shutil
import sys

from . import explore, families, specgen, syscheck, tlc


def _judge(outs, scratch):
    v, lines, errs = explore.validate_traces(outs, scratch)
    bytid = {}
    for o in outs:
        if o['trace']:
            bytid[o['trace'][0]['tid']] = o.get('id', o.get('tid'))
    cc = collections.Counter((str(bytid.get(t, t)), c) for (t, k, c) in v)
    print('TraceMon: %d lines judged, clauses violated: %s, monitor errors: %d'
          % (lines, sorted(set(c for (_, _, c) in v)), len(errs)))
    for (i, c), n in sorted(cc.items())[:60]:
        print('   %-32s %s (%d)' % (c, i, n))
    if errs:
        print(errs[0][-1500:])
    for o in outs:
        if o.get('error'):
            print('HARNESS ERROR in %s:\n%s' % (o.get('id', o.get('tid')), o['error'][-800:]))
            break


def cmd_scn(argv):
    tier = argv[argv.index('--tier') + 1] if '--tier' in argv else 'quick'
    seed = int(argv[argv.index('--seed') + 1]) if '--seed' in argv else 1
    scratch = explore.make_scratch('dev_scn')
    try:
        scns = [s for s in families.all_scenarios(seed, tier) if argv[0] in s['id']]
        for i, s in enumerate(scns):
            s['tid'] = i + 1
        print('%d scenarios' % len(scns))
        outs = explore.run_scenarios(scns, scratch)
        _judge(outs, scratch)
    finally:
        shutil.rmtree(scratch, ignore_errors=True)


def cmd_sim(argv):
    cfgname, num, depth, seed = argv[0], int(argv[1]), int(argv[2]), int(argv[3])
    scratch = explore.make_scratch('dev_sim')
    try:
        cfg = specgen.parse_cfg(os.path.join(tlc.SPEC_DIR, cfgname))
        behs, _ = specgen.simulate(cfgname, scratch, num, depth, seed)
        with mp.get_context('fork').Pool(8) as pool:
            outs = pool.map(specgen.replay_behaviour, [(cfg, b, scratch, 1000 + i) for i, b in enumerate(behs)],
                            chunksize=1)
        kinds = collections.Counter()
        for o in outs:
            o['id'] = 'spec/%s/%d' % (cfgname, o['tid'])
            if o['div']:
                print('DIVERGENCE', json.dumps(o['div'][0])[:500])
            for l in o['labels']:
                if l[0] in ('job', 'job_begin'):
                    kinds[(l[1], l[3])] += 1
        print('%d behaviours, %d steps, %d divergent, %d harness errors' %
              (len(behs), sum(o['steps'] for o in outs), sum(1 for o in outs if o['div']),
               sum(1 for o in outs if o['error'])))
        print('jobs:', sorted(kinds.items()))
        _judge(outs, scratch)
    finally:
        shutil.rmtree(scratch, ignore_errors=True)


def cmd_fbase(argv):
    scratch = explore.make_scratch('dev_fbase')
    try:
        bases = [b for b in syscheck.fault_bases('thorough') if argv[0] in b['id']]
        for i, b in enumerate(bases):
            b['tid'] = i + 1
        outs = explore.run_scenarios(bases, scratch)
        vs = []
        for b, o in zip(bases, outs):
            o['id'] = b['id']
            vs += syscheck.make_variants(b, o, random.Random(1), 'thorough')
        if len(argv) > 1:
            vs = [v for v in vs if v['fault']['kind'] == argv[1]]
        for i, v in enumerate(vs):
            v['tid'] = 100 + i
        print('%d bases, %d variants' % (len(bases), len(vs)))
        vouts = explore.run_scenarios(vs, scratch)
        _judge(outs + vouts, scratch)
    finally:
        shutil.rmtree(scratch, ignore_errors=True)


if __name__ == '__main__':
    import logging
    logging.disable(logging.CRITICAL)
    cmds = dict(scn=cmd_scn, sim=cmd_sim, fbase=cmd_fbase)
    if len(sys.argv) < 3 or sys.argv[1] not in cmds:
        print(__doc__)
        sys.exit(2)
    cmds[sys.argv[1]](sys.argv[2:])
