"""Replay of a recorded violation: `bin/check Cxx --replay replays/<file>.json`.

Re-executes the scenario on the current tree, prints the history (jobs, statuses, ref movements) and
re-judges the stream with TraceMon."""
import json
import os
import shutil

from . import explore, tlc
from .scenario import run_scenario


def describe(trace):
    prev = {}
    for rec in trace:
        cur = {r['n']: r['c'] for r in rec['refs']}
        moved = ['%s:%s->%s' % (n, prev.get(n, '-'), cur.get(n, '-')) for n in sorted(set(cur) | set(prev))
                 if cur.get(n) != prev.get(n)]
        prev = cur
        tag = rec['ev']
        if rec['ev'] == 'env':
            tag += ' ' + json.dumps(rec['act'])
        elif rec['ev'] in ('job_begin', 'job_end'):
            tag += ' %s(%s) %s' % (rec['job']['kind'], rec['job']['arg'], rec['job'].get('status', ''))
        elif rec['ev'] == 'op':
            tag += ' ' + (rec['op'].get('cmd') or rec['op'].get('kind', '')) + (' FAILED' if rec['op'].get('failed') else '')
        elif rec['ev'] == 'check':
            tag += ' ' + json.dumps(rec['chk'])
        print('%4d %s%s' % (rec['k'], tag[:150], ('   ' + ' '.join(moved)) if moved and rec['k'] > 1 else ''))


def main(prop, path):
    d = json.load(open(path))
    scn = d.get('scenario')
    if not scn:
        print(json.dumps(d, indent=1)[:3000])
        return 0
    import logging
    logging.disable(logging.CRITICAL)
    scratch = explore.make_scratch('replay')
    try:
        out = run_scenario(scn, scratch, tid=1)
        describe(out['trace'])
        if out['error']:
            print(out['error'])
        p = os.path.join(scratch, 't.ndjson')
        with open(p, 'w') as f:
            for rec in out['trace']:
                f.write(json.dumps(rec) + '\n')
        v, n, r = tlc.run_tracemon(p, scratch)
        print('TraceMon:', v)
        return 1 if any(c.startswith(prop + '.') for (_, _, c) in v) else 0
    finally:
        shutil.rmtree(scratch, ignore_errors=True)
