"""Evidence files (/verif/evidence/<id>.json, schema /root/.vp/EVIDENCE.schema.json) and the
known-findings file."""
import json
import os
import time

VERIF = os.path.dirname(os.path.dirname(os.path.abspath(__file__)))
KNOWN = os.path.join(VERIF, 'known_findings.json')


def write(prop, tier, seed, level, coverage, assumptions, wall, violations):
    os.makedirs(os.path.join(VERIF, 'evidence'), exist_ok=True)
    d = dict(property_id=prop, tier=tier, seed=int(seed), level=level, coverage=coverage,
             assumptions=list(assumptions), wall_s=round(float(wall), 2), violations=int(violations),
             written_at=time.strftime('%Y-%m-%dT%H:%M:%S'))
    path = os.path.join(VERIF, 'evidence', prop + '.json')
    tmp = path + '.tmp'
    with open(tmp, 'w') as f:
        json.dump(d, f, indent=1, default=str)
    os.replace(tmp, path)
    return path


def known_findings(prop):
    """Entries of known_findings.json for one property: list of dict(id, match, what)."""
    if not os.path.exists(KNOWN):
        return []
    d = json.load(open(KNOWN))
    return [k for k in d.get('known', []) if k['property'] == prop]


def match_known(prop, sig):
    """sig: dict describing one violation. A known finding matches when every key of its `match`
    equals the signature's value (lists = any of)."""
    for k in known_findings(prop):
        ok = True
        for key, val in k['match'].items():
            have = sig.get(key)
            if isinstance(val, list):
                if have not in val:
                    ok = False
            elif have != val:
                ok = False
        if ok:
            return k
    return None


def report(prop, violations, replay_dir):
    """violations: list of dict(sig=..., replay=...). Prints KNOWN-FINDING / VIOLATION lines.
    Returns the number of violations that are not known findings."""
    new = 0
    seen_known = {}
    first_new = {}
    for v in violations:
        k = match_known(prop, v['sig'])
        if k:
            seen_known.setdefault(k['id'], (k, 0))
            seen_known[k['id']] = (k, seen_known[k['id']][1] + 1)
        else:
            new += 1
            key = json.dumps({a: b for a, b in v['sig'].items() if a != 'scenario'}, sort_keys=True)
            first_new.setdefault(key, v)
    for kid, (k, n) in sorted(seen_known.items()):
        print('KNOWN-FINDING: property=%s %s [%s, %d occurrence(s) this run]' % (prop, k['what'], kid, n))
    for key, v in list(first_new.items())[:20]:
        print('VIOLATION property=%s replay=%s' % (prop, v.get('replay', '')))
        print('  detail: ' + json.dumps(v['sig'], sort_keys=True)[:600])
    return new
