"""Thin runner around TLC (tla2tools.jar + CommunityModules, as installed in the sandbox)."""
import json
import os
import re
import subprocess
import time

SPEC_DIR = os.path.join(os.path.dirname(os.path.dirname(os.path.abspath(__file__))), 'spec')
JAR = '/opt/veriftools/tla/tla2tools.jar'
CM = '/opt/veriftools/tla/CommunityModules-deps.jar'


class TLCError(Exception):
    pass


def run_tlc(module, cfg, scratch, workers=1, env=None, extra=(), timeout=3600, simulate=None,
            deadlock=False, java_opts=()):
    """Run TLC on spec/<module>.tla with spec/<cfg>. Returns dict(out, states, distinct, depth, ok,
    violated (invariant/property name or None), wall_s)."""
    meta = os.path.join(scratch, 'tlc_meta_%d_%d' % (os.getpid(), int(time.time() * 1000) % 10**9))
    os.makedirs(meta, exist_ok=True)
    cmd = ['java', '-XX:+UseParallelGC', '-Xss16m'] + list(java_opts) + \
          ['-cp', JAR + ':' + CM, 'tlc2.TLC', '-config', cfg, '-workers', str(workers),
           '-metadir', meta, '-noGenerateSpecTE']
    if deadlock:
        cmd.append('-deadlock')
    if simulate:
        cmd += ['-simulate', simulate]
    cmd += list(extra) + [module]
    e = dict(os.environ)
    e['TMPDIR'] = scratch
    e['JAVA_TOOL_OPTIONS'] = '-Djava.io.tmpdir=%s' % scratch
    if env:
        e.update(env)
    t = time.time()
    try:
        p = subprocess.run(cmd, cwd=SPEC_DIR, stdout=subprocess.PIPE, stderr=subprocess.STDOUT,
                           universal_newlines=True, env=e, timeout=timeout)
    except subprocess.TimeoutExpired as err:
        raise TLCError('TLC timed out after %ss: %s' % (timeout, ' '.join(cmd))) from err
    out = p.stdout
    res = dict(out=out, rc=p.returncode, wall_s=time.time() - t, states=0, distinct=0, depth=0,
               violated=None, ok=False)
    m = re.search(r'(\d+) states generated, (\d+) distinct states found', out)
    if m:
        res['states'], res['distinct'] = int(m.group(1)), int(m.group(2))
    m = re.search(r'The depth of the complete state graph search is (\d+)', out)
    if m:
        res['depth'] = int(m.group(1))
    m = re.search(r'Invariant (\S+) is violated', out) or \
        re.search(r'Action property (\S+) is violated', out) or \
        re.search(r'Temporal properties were violated', out)
    if m:
        res['violated'] = m.group(1) if m.groups() else 'temporal'
    res['ok'] = ('Model checking completed. No error has been found' in out) or \
        (simulate is not None and p.returncode in (0,) and 'Error' not in out)
    return res


def run_tracemon(trace_path, scratch, timeout=3600):
    """Validate an ndjson observation stream with spec/TraceMon.tla.
    Returns (violations [(tid,k,clause)], nlines, tlc result)."""
    viol_path = trace_path + '.viol.json'
    if os.path.exists(viol_path):
        os.unlink(viol_path)
    r = run_tlc('TraceMon.tla', 'TraceMon.cfg', scratch, workers=1,
                env={'TRACE_FILE': trace_path, 'VIOL_FILE': viol_path}, timeout=timeout)
    if not r['ok'] or not os.path.exists(viol_path):
        raise TLCError('TraceMon did not accept the stream (machinery failure):\n' + r['out'][-3000:])
    d = json.load(open(viol_path))
    return [tuple(v) for v in d['viol']], d['n'], r
