"""Evaluate one job in a FRESH OS process on a copy of a world snapshot (C10: the outcome of an
evaluation depends only on the state of the repository and of the pull request, not on which jobs the
same server instance processed before).

usage: python -m harness.freshproc <snapshot.pickle>   (prints one JSON line: the effect summary)
"""
import json
import os
import pickle
import shutil
import sys
import tempfile


def effects(w, before):
    """Summary of what an evaluation did, comparable across processes (no shas: merge commits differ)."""
    from .world import sh
    refs = w.refs()
    content = {}
    for n, s in sorted(refs.items()):
        content[n] = sorted(sh('git ls-tree -r --name-only %s' % s, w.bare).split())
    prs = []
    for it in sorted(w.mock.PullRequest.items, key=lambda x: x.id):
        import zlib
        msgs = [(c.user['username'].lower(), zlib.crc32(c.content['raw'].encode()) % 100003)
                for c in w.mock.Comment.items if c.pull_request_id == it.id]
        prs.append([it.id, it.source['branch']['name'], it.destination['branch']['name'], it.state, len(msgs),
                    [m[1] for m in msgs if m[0] == 'robot'][-2:]])
    return dict(refs=content, prs=prs)


def main():
    repo = os.environ.get('VERIF_REPO', '/repo')
    if repo not in sys.path:
        sys.path.insert(0, repo)
    snap = pickle.load(open(sys.argv[1], 'rb'))
    scratch = tempfile.mkdtemp(prefix='fresh_', dir=os.path.dirname(sys.argv[1]))
    try:
        from .world import World, _unstrip
        import logging
        logging.disable(logging.CRITICAL)
        w = World.__new__(World)
        World.attach(w, scratch, snap)
        job = snap['job']
        if job['kind'] == 'EvalPR':
            r = w.eval_pr(job['arg'])
        else:
            r = w.eval_commit(job['arg'])
        out = dict(status=r['status'], effects=effects(w, None))
        sys.stdout.write('FRESHRESULT ' + json.dumps(out) + '\n')
    finally:
        shutil.rmtree(scratch, ignore_errors=True)


if __name__ == '__main__':
    main()
