"""Scripted scenario families: histories aimed at the quantifier of each system-level property.

They complement the TLC-generated behaviours of BertE.tla (harness/specgen.py): the families reach
corners the bounded model does not have in its alphabet yet (stabilization + hotfix + major-only
cascades, reset/force_reset with manual commits, admin branch jobs, holds, event multiplicities).
Every family returns a list of scenarios (see harness/scenario.py for the vocabulary).
"""
import itertools
import random

CASCADES = {
    'A2': dict(branches=['development/4.3', 'development/5.1']),
    'B3': dict(branches=['development/4.3', 'development/5.1', 'development/10.0']),
    'C3s': dict(branches=['stabilization/4.3.0', 'development/4.3', 'development/5.1']),
    'D3s': dict(branches=['development/4.3', 'stabilization/5.1.0', 'development/5.1']),
    'E3m': dict(branches=['development/4.3', 'development/5.1', 'development/5']),
    'F4': dict(branches=['development/4.3', 'stabilization/5.1.0', 'development/5.1',
                         'development/10.0']),
    'H3h': dict(branches=['development/4.3', 'development/5.1', 'development/10.0'],
                hotfix=['hotfix/4.2.17'], tags={'4.2.17.0': 'init'}),
    'S1': dict(branches=['development/4.3']),
}
MODES = {
    'queue': {},
    'noqueue': {'disable_queues': True},
    'skip': {'skip_queue_when_not_needed': True},
}


def world(casc, mode, extra=None, opts=None):
    w = dict(CASCADES[casc])
    s = dict(MODES[mode])
    s.update(extra or {})
    w['settings'] = s
    if opts:
        w['opts'] = list(opts)
    return w


def last_q(casc):
    b = CASCADES[casc]['branches'][-1]
    return 'q/' + b.split('/', 1)[1]


def src(i):
    return 'bugfix/TEST-%d' % i


def approve(p):
    return [{"a": "approve", "p": p, "u": "contrib"}, {"a": "approve", "p": p, "u": "peer1"}]


def to_gate(p, status='SUCCESSFUL'):
    """open PR p already exists: evaluate, approve, build report, evaluate (-> Queued / merged)."""
    return [{"a": "eval_pr", "p": p}] + approve(p) + [{"a": "eval_pr", "p": p},
            {"a": "report_pr", "p": p, "status": status}, {"a": "eval_pr", "p": p}]


def queue_merge(casc, status='SUCCESSFUL'):
    return [{"a": "report_queue", "status": status}, {"a": "eval_commit", "ref": last_q(casc)}]


def open_pr(i, dst, **kw):
    d = {"a": "open_pr", "src": src(i), "dst": dst}
    d.update(kw)
    return d


def dests(casc):
    return CASCADES[casc]['branches'] + CASCADES[casc].get('hotfix', [])


# ---------------------------------------------------------------------------------------------
def fam_lifecycle(rng, tier):
    """C01 C03 C06 C19: full life cycles in the three modes, octopus / no_octopus, every cascade,
    one or two PRs with every destination choice, second PR opened at different moments."""
    out = []
    cascs = list(CASCADES) if tier == 'thorough' else ['B3', 'D3s', 'E3m', 'C3s', 'H3h', 'F4', 'A2']
    for casc in cascs:
        ds = dests(casc)
        for mode in MODES:
            for nooct in (False, True):
                dsts = ds if tier == 'thorough' else rng.sample(ds, min(2, len(ds)))
                for d1 in dsts:
                    d2 = rng.choice(ds)
                    when = rng.choice(['before', 'queued', 'after'])
                    steps = [open_pr(1, d1)]
                    if nooct:
                        steps.append({"a": "comment", "p": 1, "u": "contrib", "text": "@robot no_octopus"})
                    p2 = 2  # symbolic ids are real ids here: child PRs take ids too -> computed below
                    if when == 'before':
                        steps += [open_pr(2, d2)]
                    steps += to_gate(1)
                    if when == 'queued':
                        steps += [open_pr(2, d2)]
                    if mode != 'noqueue':
                        steps += queue_merge(casc)
                    if when == 'after':
                        steps += [open_pr(2, d2)]
                    steps += [{"a": "gate2"}]
                    if mode != 'noqueue':
                        steps += queue_merge(casc)
                    steps += [{"a": "eval_pr", "p": 1}]
                    out.append(dict(id='life/%s/%s/%s/%s/%s/%s' % (casc, mode, 'cons' if nooct else 'oct',
                                                                   d1, d2, when),
                                    world=world(casc, mode), steps=steps, dyn=True))
    return out


def fam_queue_status(rng, tier):
    """C03 C05 (system level): several queued PRs with mixed queue build results, reports in any
    order, stale reports on superseded tips, then queue evaluations."""
    out = []
    sts = ['SUCCESSFUL', 'FAILED', 'INPROGRESS', 'NOTSTARTED', 'STOPPED']
    cascs = ['B3', 'D3s', 'C3s', 'F4', 'H3h'] if tier == 'thorough' else ['B3', 'D3s', 'H3h']
    n = 60 if tier == 'thorough' else 10
    for casc in cascs:
        ds = dests(casc)
        for mode in ('queue', 'skip'):
            for i in range(n):
                k = rng.choice([2, 3])
                steps = []
                for p in range(1, k + 1):
                    steps.append(open_pr(p, rng.choice(ds)))
                for p in range(1, k + 1):
                    steps.append({"a": "gate", "p": p})
                # arbitrary statuses on every queue commit, in random order, some twice
                steps.append({"a": "rand_queue_status", "seed": rng.randrange(10**6), "sts": sts})
                steps.append({"a": "eval_commit", "ref": last_q(casc)})
                steps.append({"a": "rand_queue_status", "seed": rng.randrange(10**6), "sts": sts})
                steps.append({"a": "eval_commit", "ref": last_q(casc)})
                steps.append({"a": "report_queue", "status": "SUCCESSFUL"})
                steps.append({"a": "eval_commit", "ref": last_q(casc)})
                out.append(dict(id='qstat/%s/%s/%d' % (casc, mode, i), world=world(casc, mode),
                                steps=steps, dyn=True))
    return out


def fam_skip_drift(rng, tier):
    """C03 (skip_queue_when_not_needed): a cascading PR with green integration builds, while
    another PR moves one of the later destinations; octopus and no_octopus."""
    out = []
    for casc in ('B3', 'D3s', 'F4', 'E3m'):
        ds = CASCADES[casc]['branches']
        for moved in ds[1:]:
            for nooct in (False, True):
                for order in ('gate_then_move', 'move_then_gate'):
                    a, b = (1, 2) if order == 'gate_then_move' else (2, 1)   # a = cascading PR
                    pre = [open_pr(a, ds[0])]
                    if nooct:
                        pre.append({"a": "comment", "p": a, "u": "contrib", "text": "@robot no_octopus"})
                    pre += [{"a": "eval_pr", "p": a}] + approve(a) + [{"a": "eval_pr", "p": a},
                            {"a": "report_pr", "p": a, "status": "SUCCESSFUL"}]
                    mv = [open_pr(b, moved), {"a": "gate", "p": b}, {"a": "finish_queue"}]
                    steps = (pre + mv) if order == 'gate_then_move' else (mv + pre)
                    steps += [{"a": "eval_pr", "p": a},
                              {"a": "report_pr", "p": a, "status": "SUCCESSFUL"}, {"a": "eval_pr", "p": a},
                              {"a": "finish_queue"}]
                    out.append(dict(id='drift/%s/%s/%s/%s' % (casc, moved, 'cons' if nooct else 'oct', order),
                                    world=world(casc, 'skip'), steps=steps, dyn=True))
    return out


def fam_holds(rng, tier):
    """C12: a fully approved green PR combined with each hold, added/removed at several positions."""
    out = []
    holds = ['wait', 'after_open', 'after_declined', 'after_merged', 'after_unknown', 'after_nonnum',
             'after_two', 'declined']
    positions = ['at_open', 'after_integration', 'after_green', 'after_queued']
    for casc, mode in (('B3', 'queue'), ('B3', 'noqueue'), ('D3s', 'skip'), ('A2', 'queue')):
        ds = CASCADES[casc]['branches']
        for hold in holds:
            for pos in positions:
                if tier != 'thorough' and rng.random() < 0.5:
                    continue
                out.append(dict(id='hold/%s/%s/%s/%s' % (casc, mode, hold, pos), world=world(casc, mode),
                                steps=[{"a": "hold_script", "hold": hold, "pos": pos, "dst": ds[0],
                                        "dst2": rng.choice(ds)}], dyn=True))
    # foreign / unhandled pull requests
    pairs = [('user/foo', 'development/4.3'), ('hotfix/foo', 'development/4.3'),
             ('bugfix/TEST-7', 'release/4.3'), ('bugfix/TEST-7', 'feature/TEST-9'),
             ('whatever', 'development/4.3'), ('feature/x', 'user/bar'), ('release/4.3', 'development/5.1')]
    for s, d in pairs:
        out.append(dict(id='foreign/%s/%s' % (s, d), world=world('B3', 'queue'),
                        steps=[{"a": "foreign_script", "src": s, "dst": d}], dyn=True))
    return out


def fam_reset(rng, tier):
    """C15: source rewrites, destination moves and manual commits on w/ branches in every order,
    then reset / force_reset, with a second PR present."""
    out = []
    acts = ['amend', 'rebase', 'push', 'reset_src', 'dst_move', 'manual1', 'manual2', 'manual_first',
            'manual_merge']
    n = 120 if tier == 'thorough' else 24
    for i in range(n):
        casc = rng.choice(['B3', 'D3s', 'E3m'])
        mode = rng.choice(list(MODES))
        k = rng.choice([0, 1, 2, 3])
        seq = [rng.choice(acts) for _ in range(k)]
        cmd = rng.choice(['reset', 'reset', 'force_reset'])
        out.append(dict(id='reset/%d/%s/%s/%s/%s' % (i, casc, mode, '+'.join(seq) or 'none', cmd),
                        world=world(casc, mode),
                        steps=[{"a": "reset_script", "seq": seq, "cmd": cmd,
                                "dst": CASCADES[casc]['branches'][0]}], dyn=True))
    return out


def fam_admin(rng, tier):
    """C20 C01: branch and queue admin jobs in states with zero or more queued PRs."""
    out = []
    creates = [
        ('development/4.4', None), ('development/5.2', None), ('development/11.0', None),
        ('development/3.0', None), ('development/10', None), ('development/4', None),
        ('stabilization/5.1.0', None), ('stabilization/4.3.0', None), ('stabilization/6.0.0', None),
        ('hotfix/4.3.0', None), ('development/4.3', None), ('development/4.4', 'development/4.3'),
        ('development/4.4', 'development/10.0'), ('development/4.4', 'init'),
        ('development/11.0', 'development/4.3'), ('feature/foo', None), ('release/4.3', None),
        ('development/4.4', 'outside'), ('development/11.0', 'outside'), ('stabilization/10.0.0', 'outside'),
    ]
    deletes = ['development/4.3', 'development/5.1', 'development/10.0', 'stabilization/5.1.0',
               'development/7.0', 'hotfix/4.2.17', 'bugfix/TEST-1', 'q/4.3']
    for mode in ('queue', 'noqueue'):
        for queued in (0, 1, 2):
            if mode == 'noqueue' and queued:
                continue
            for (b, frm) in creates:
                if tier != 'thorough' and rng.random() < 0.5:
                    continue
                out.append(dict(id='admin/create/%s/%d/%s/%s' % (mode, queued, b, frm),
                                world=world('B3', mode, None),
                                steps=[{"a": "admin_script", "kind": "CreateBranch", "branch": b,
                                        "from": frm, "queued": queued}], dyn=True))
            for b in deletes:
                if tier != 'thorough' and rng.random() < 0.5:
                    continue
                casc = 'D3s' if 'stab' in b or rng.random() < 0.3 else ('H3h' if 'hotfix' in b else 'B3')
                out.append(dict(id='admin/delete/%s/%d/%s/%s' % (mode, queued, b, casc),
                                world=world(casc, mode),
                                steps=[{"a": "admin_script", "kind": "DeleteBranch", "branch": b,
                                        "from": None, "queued": queued}], dyn=True))
            for kind in ('RebuildQueues', 'DeleteQueues', 'ForceMerge'):
                for casc in ('B3', 'H3h', 'D3s'):
                    out.append(dict(id='admin/%s/%s/%d/%s' % (kind, mode, queued, casc),
                                    world=world(casc, mode),
                                    steps=[{"a": "admin_script", "kind": kind, "branch": "", "from": None,
                                            "queued": queued, "hotfix_queue": casc == 'H3h'}], dyn=True))
    # archived version: delete then re-create
    out.append(dict(id='admin/archived', world=world('B3', 'queue'),
                    steps=[{"a": "api", "kind": "DeleteBranch", "branch": "development/4.3"},
                           {"a": "api", "kind": "CreateBranch", "branch": "development/4.3"},
                           {"a": "api", "kind": "CreateBranch", "branch": "development/4.3",
                            "branch_from": "development/5.1"}]))
    return out


def fam_events(rng, tier):
    """C19 C10: events on the PR, on its integration PRs and on every source / w / q tip, in random
    order and multiplicity, both always_create_* settings, then decline or merge; every evaluation
    is repeated three times."""
    out = []
    n = 80 if tier == 'thorough' else 16
    for i in range(n):
        casc = rng.choice(['B3', 'D3s', 'E3m', 'F4'])
        mode = rng.choice(list(MODES))
        extra = {}
        if rng.random() < 0.4:
            extra['always_create_integration_pull_requests'] = False
        if rng.random() < 0.3:
            extra['always_create_integration_branches'] = False
        out.append(dict(id='events/%d/%s/%s/%s' % (i, casc, mode, ','.join(sorted(extra)) or 'dflt'),
                        world=world(casc, mode, extra),
                        steps=[{"a": "events_script", "seed": rng.randrange(10**6),
                                "npr": rng.choice([1, 2, 3]), "end": rng.choice(['decline', 'merge'])}],
                        dyn=True))
    return out


def fam_conflict(rng, tier):
    """Histories with content conflicts (on the destination, on a later integration branch), resolved by the
    author as the robot's message instructs, then merged / reset / declined."""
    out = []
    for casc in (['B3', 'D3s', 'F4'] if tier == 'thorough' else ['B3', 'D3s']):
        for mode in MODES:
            for where in ('origin', 'wbranch'):
                for then in (['merge', 'reset', 'decline'] if tier == 'thorough' else ['merge', 'reset']):
                    out.append(dict(id='conflict/%s/%s/%s/%s' % (casc, mode, where, then), world=world(casc, mode),
                                    steps=[{"a": "conflict_script", "where": where, "then": then,
                                            "seed": rng.randrange(10**6)}], dyn=True))
    return out


def fam_repeat(rng, tier):
    """C10: convergence, no spam, commands once, independence from what the instance processed before."""
    out = []
    n = 24 if tier == 'thorough' else 4
    for i in range(n):
        casc = rng.choice(['B3', 'D3s', 'A2', 'E3m'])
        mode = list(MODES)[i % 3]
        out.append(dict(id='repeat/%d/%s/%s' % (i, casc, mode), world=world(casc, mode),
                        steps=[{"a": "repeat_script", "seed": rng.randrange(10**6)}], dyn=True))
    return out


def fam_core(rng, tier):
    """Scenarios that are always part of the quick tier (never sampled away): one representative of each
    corner that needs a specific multi-step history."""
    out = []
    # C15: manual work below a later robot merge, then reset
    for casc, mode in (('B3', 'queue'), ('B3', 'noqueue')):
        for seq in (['manual1', 'push', 'eval'], ['manual_first', 'push', 'eval', 'manual1'], ['push', 'eval', 'manual2']):
            out.append(dict(id='core/reset/%s/%s/%s' % (casc, mode, '+'.join(seq)), world=world(casc, mode),
                            steps=[{"a": "reset_script", "seq": seq, "cmd": "reset",
                                    "dst": CASCADES[casc]['branches'][0]}], core=True))
    # C20: two PRs on one hotfix queue (and one on the main queue), then rebuild / create-branch rebuild
    for kind, extra in (('RebuildQueues', {}), ('CreateBranch', {'branch': 'development/11.0'})):
        out.append(dict(id='core/admin/%s/hotfix2' % kind, world=world('H3h', 'queue'),
                        steps=[{"a": "admin_script", "kind": kind, "branch": extra.get('branch', ''), "from": None,
                                "queued": 3, "hotfix_queue": True, "hotfix_n": 2}], core=True))
        out.append(dict(id='core/admin/%s/mixed3' % kind, world=world('H3h', 'queue'),
                        steps=[{"a": "admin_script", "kind": kind, "branch": extra.get('branch', ''), "from": None,
                                "queued": 3, "hotfix_queue": True}], core=True))
    # C08/C20: a delete-branch job whose branch deletion is refused, new commits, then a retry
    out.append(dict(id='core/admin/delete-retry', world=world('B3', 'noqueue'),
                    steps=[{"a": "api", "kind": "DeleteBranch", "branch": "development/4.3",
                            "reject": ["development/4.3"]},
                           open_pr(1, 'development/4.3'), {"a": "gate", "p": 1},
                           {"a": "api", "kind": "DeleteBranch", "branch": "development/4.3"},
                           {"a": "api", "kind": "CreateBranch", "branch": "development/4.3"}], core=True))
    # C19: decline a PR that has integration branches but no integration pull requests
    for mode in ('queue', 'noqueue'):
        out.append(dict(id='core/decline-no-children/%s' % mode,
                        world=world('B3', mode, {'always_create_integration_pull_requests': False}),
                        steps=[open_pr(1, 'development/4.3'), {"a": "eval_pr", "p": 1}, {"a": "eval_pr", "p": 1},
                               {"a": "decline", "p": 1}, {"a": "eval_pr", "p": 1}, {"a": "eval_pr", "p": 1}],
                        core=True))
    # C01: no_octopus direct merge of a PR that is behind its destination
    for casc in ('B3', 'D3s'):
        d0 = CASCADES[casc]['branches'][0]
        out.append(dict(id='core/behind/%s' % casc, world=world(casc, 'noqueue'),
                        steps=[open_pr(1, d0), open_pr(2, d0),
                               {"a": "comment", "p": 1, "u": "contrib", "text": "@robot no_octopus"},
                               {"a": "comment", "p": 2, "u": "contrib", "text": "@robot no_octopus"},
                               {"a": "gate", "p": 1}, {"a": "gate", "p": 2}, {"a": "eval_pr", "p": 2}], core=True))
    # C03: skip-queue direct merge with consecutive merges (no_octopus), up-to-date pull request
    for casc in ('B3', 'D3s'):
        d0 = CASCADES[casc]['branches'][0]
        out.append(dict(id='core/skip-cons/%s' % casc, world=world(casc, 'skip'),
                        steps=[open_pr(1, d0), {"a": "comment", "p": 1, "u": "contrib", "text": "@robot no_octopus"},
                               {"a": "gate", "p": 1}, {"a": "finish_queue"}, {"a": "eval_pr", "p": 1}], core=True))
    # C01: a later destination whose CONTENT equals the earlier one (freshly created), consecutive merges, PR behind
    for casc in ('A2', 'B3'):
        byp = ['bypass_author_approval', 'bypass_peer_approval', 'bypass_build_status']
        for flat in (True, False):
            wflat = dict(world(casc, 'noqueue', None, byp), flat=flat)
            out.append(dict(id='core/one-shot-merges/%s/%s' % (casc, 'flat' if flat else 'own'), world=wflat,
                            steps=[open_pr(1, 'development/4.3'), open_pr(2, 'development/4.3'),
                                   {"a": "comment", "p": 1, "u": "contrib", "text": "@robot no_octopus"},
                                   {"a": "comment", "p": 2, "u": "contrib", "text": "@robot no_octopus"},
                                   {"a": "eval_pr", "p": 1}, {"a": "eval_pr", "p": 2}, {"a": "eval_pr", "p": 2}],
                            core=True))
    # C08/C20: delete an old branch while another version has a queue (the archive tag must be on the deleted tip)
    out.append(dict(id='core/admin/delete-with-foreign-queue', world=world('B3', 'queue'),
                    steps=[open_pr(1, 'development/5.1'), {"a": "gate", "p": 1},
                           {"a": "api", "kind": "DeleteBranch", "branch": "development/4.3"},
                           {"a": "finish_queue"}], core=True))
    # C20: after everything queued was merged the (now empty) q/ branches remain: delete_branch must still work
    for b in ('development/4.3', 'development/5.1'):
        out.append(dict(id='core/admin/delete-after-merge/%s' % b, world=world('B3', 'queue'),
                        steps=[open_pr(1, 'development/4.3'), {"a": "gate", "p": 1}, {"a": "finish_queue"},
                               {"a": "api", "kind": "DeleteBranch", "branch": b},
                               open_pr(2, 'development/10.0'), {"a": "gate", "p": 2}, {"a": "finish_queue"}], core=True))
    # C20: newest development branch is major-only, queued work, request a new minor of that major
    out.append(dict(id='core/admin/create-minor-under-major', world=world('E3m', 'queue'),
                    steps=[{"a": "admin_script", "kind": "CreateBranch", "branch": "development/5.2", "from": None,
                            "queued": 1}], core=True))
    # C12: the dependency was only partially merged (it is still open)
    out.append(dict(id='core/hold-partial-dependency', world=world('B3', 'queue'),
                    steps=[open_pr(1, 'development/4.3'), {"a": "gate", "p": 1}, {"a": "push_src", "p": 1},
                           {"a": "finish_queue"}, open_pr(2, 'development/5.1'),
                           {"a": "comment_after", "p": 2, "dep": 1}, {"a": "eval_pr", "p": 2}, {"a": "gate", "p": 2},
                           {"a": "finish_queue"}, {"a": "eval_pr", "p": 2}], core=True))
    # C15: manual commit on a NON-last integration branch, reset requested right away
    for seq in (['manual_first'], ['manual_first', 'manual1']):
        out.append(dict(id='core/reset/B3/queue/%s/immediate' % '+'.join(seq), world=world('B3', 'queue'),
                        steps=[{"a": "reset_script", "seq": seq, "cmd": "reset", "dst": "development/4.3"}], core=True))
    # C15: the destination moved, the integration branches were not updated yet, manual work, reset
    for mode in ('queue', 'noqueue'):
        for seq in (['dst_move_noeval', 'manual1'], ['dst_move_noeval', 'manual_first', 'push']):
            out.append(dict(id='core/reset/B3/%s/%s' % (mode, '+'.join(seq)), world=world('B3', mode),
                            steps=[{"a": "reset_script", "seq": seq, "cmd": "reset", "dst": "development/4.3"}], core=True))
    # C10/C19: a backport: the same source branch, already merged into the later versions, proposed to an older one
    # (its new integration branches are in sync from the start); evaluated again and again
    for mode in ('queue', 'noqueue'):
        out.append(dict(id='core/backport/B3/%s' % mode,
                        world=world('B3', mode, {'always_create_integration_pull_requests': False}),
                        steps=[open_pr(1, 'development/5.1', base='development/4.3'), {"a": "gate", "p": 1}, {"a": "finish_queue"},
                               {"a": "open_pr", "src": src(1), "dst": "development/4.3", "existing": True},
                               {"a": "eval_pr", "p": 2}, {"a": "eval_pr", "p": 2}, {"a": "eval_pr", "p": 2},
                               {"a": "eval_pr", "p": 2}, {"a": "gate", "p": 2}, {"a": "finish_queue"},
                               {"a": "eval_pr", "p": 2}], core=True))
    # C06: a pull request on a stabilization branch: the source tip and w/<x.y>/... carry the same major.minor;
    # the source tip is not green while every w/ branch is - the gate must hold (seeded C06_r4)
    for mode in ('queue', 'noqueue'):
        for red in ('FAILED', 'INPROGRESS'):
            out.append(dict(id='core/stab-red-source/%s/%s' % (mode, red), world=world('D3s', mode),
                            steps=[open_pr(1, 'stabilization/5.1.0'), {"a": "eval_pr", "p": 1}] + approve(1) +
                                  [{"a": "eval_pr", "p": 1},
                                   {"a": "report", "ref": "w:1:5.1", "status": "SUCCESSFUL"},
                                   {"a": "report", "ref": "src:1", "status": red},
                                   {"a": "eval_pr", "p": 1}, {"a": "eval_pr", "p": 1}], core=True))
    # C20/C05: a hotfix release between two hotfix pull requests: the branch then owns two queues (q/4.2.17.1 drained,
    # q/4.2.17.2 with a queued pull request); delete_branch must refuse, the queued one must still be merged
    out.append(dict(id='core/admin/hotfix-two-queues', world=world('H3h', 'queue'),
                    steps=[open_pr(1, 'hotfix/4.2.17'), {"a": "gate", "p": 1}, {"a": "finish_queue"},
                           {"a": "push_tag", "tag": "4.2.17.1", "branch": "hotfix/4.2.17"},
                           open_pr(2, 'hotfix/4.2.17'), {"a": "gate", "p": 2},
                           {"a": "api", "kind": "DeleteBranch", "branch": "hotfix/4.2.17"},
                           open_pr(3, 'development/4.3'), {"a": "gate", "p": 3},
                           {"a": "finish_queue"}, {"a": "finish_queue"}, {"a": "eval_pr", "p": 2}], core=True))
    # C03/C05: queue branch names are re-used by a queue rebuild: a green verdict seen on the old commit of
    # q/w/<pr>/4.3/... says nothing about the new commit of that name
    for casc in ('A2', 'B3'):
        out.append(dict(id='core/rebuild-reuses-names/%s' % casc,
                        world=world(casc, 'queue', {'always_create_integration_pull_requests': False}),
                        steps=[open_pr(1, 'development/4.3'), {"a": "gate", "p": 1},
                               open_pr(2, 'development/4.3'), {"a": "gate", "p": 2},
                               open_pr(3, 'development/4.3'), {"a": "gate", "p": 3},
                               {"a": "report_queue", "status": "FAILED"},
                               {"a": "report_queue", "status": "SUCCESSFUL", "only": ["4.3"], "p": 3},
                               {"a": "eval_commit", "ref": last_q(casc)},
                               {"a": "decline", "p": 2}, {"a": "eval_pr", "p": 2},
                               {"a": "api", "kind": "RebuildQueues"}, {"a": "drain"},
                               {"a": "report_queue", "status": "SUCCESSFUL"},
                               {"a": "report_queue", "status": "FAILED", "only": ["4.3"], "p": 3},
                               {"a": "eval_commit", "ref": last_q(casc)}, {"a": "eval_pr", "p": 3}], core=True))
    # C01/C20: an explicit branching point that is on the newest development branch but too early: the new
    # branch would not contain the development branch just below it
    for mode in ('queue', 'noqueue'):
        for b, frm in (('development/11.0', 'development/4.3'), ('development/5.0', 'init'), ('development/10.5', 'development/5.1')):
            out.append(dict(id='core/admin/create-too-early/%s/%s/%s' % (mode, b, frm), world=world('B3', mode),
                            steps=[{"a": "admin_script", "kind": "CreateBranch", "branch": b, "from": frm,
                                    "queued": 0}], core=True))
    # C19: a pull request is superseded: another one, branched from its source, is merged; then it is declined
    for mode in ('queue', 'noqueue'):
        out.append(dict(id='core/decline-superseded/%s' % mode, world=world('B3', mode),
                        steps=[open_pr(1, 'development/4.3'), {"a": "eval_pr", "p": 1},
                               open_pr(2, 'development/4.3', base=src(1)), {"a": "gate", "p": 2}, {"a": "finish_queue"},
                               {"a": "decline", "p": 1}, {"a": "eval_pr", "p": 1}, {"a": "eval_pr", "p": 1}], core=True))
    # C12: holds on a pull request with a SINGLE target (newest development branch, hotfix branch), with and
    # without integration pull requests
    for casc, dst in (('B3', 'development/10.0'), ('H3h', 'hotfix/4.2.17')):
        for extra in ({}, {'always_create_integration_pull_requests': False}):
            for hold, pos in (('declined', 'after_green'), ('declined', 'at_open'), ('wait', 'after_green'),
                              ('after_open', 'after_green')):
                out.append(dict(id='core/hold-single-target/%s/%s/%s/%s' % (casc, 'noprs' if extra else 'prs', hold, pos),
                                world=world(casc, 'queue', extra),
                                steps=[{"a": "hold_script", "hold": hold, "pos": pos, "dst": dst,
                                        "dst2": "development/4.3"}], core=True))
    # C12: two dependencies of mixed status
    out.append(dict(id='hold/B3/queue/after_two/core', world=world('B3', 'queue'),
                    steps=[{"a": "hold_script", "hold": "after_two", "pos": "at_open", "dst": "development/4.3",
                            "dst2": "development/5.1"}], core=True))
    return out


FAMILIES = dict(core=fam_core, lifecycle=fam_lifecycle, qstatus=fam_queue_status, drift=fam_skip_drift,
                holds=fam_holds, reset=fam_reset, admin=fam_admin, events=fam_events, repeat=fam_repeat,
                conflict=fam_conflict)


def all_scenarios(seed, tier, only=None):
    rng = random.Random(seed)
    out = []
    for name, f in FAMILIES.items():
        if only and name not in only:
            continue
        out += f(random.Random(rng.randrange(10**9)), tier)
    return out
