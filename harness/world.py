"""World: a real bare git repository + the in-tree mock git host + a real BertE instance.

Everything bert-e executes here is the code of the working tree under $VERIF_REPO (default /repo).
No file of /repo is modified: the interposers are installed on the imported modules of this process.

The World exposes
  * the environment alphabet of the specification (open_pr, push_src, rebase_src, approve, comment,
    report, decline, manual_commit, third-party actions, ...),
  * the Bert-E alphabet (eval_pr, eval_commit, admin jobs) executed through put_job + process_task,
  * an observer that writes one observation record per linearisation point (every remote-mutating
    operation of a job and the job's end) - the projection pi of DESIGN.md section 4,
  * fault hooks: fail every remote operation from index k on (crash), reject one ref of a push
    (update hook of the bare repository), run a third-party action right before push k.
"""
import copy
import json
import os
import random
import re
import shutil
import subprocess
import sys
import tempfile
import zlib

REPO = os.environ.get('VERIF_REPO', '/repo')
if REPO not in sys.path:
    sys.path.insert(0, REPO)

ROBOT, CONTRIB, ADMIN, PEER1, PEER2 = 'robot', 'contrib', 'admin', 'peer1', 'peer2'
OWNER, SLUG = 'owner', 'slug'
BUILD_KEY = 'pre-merge'

_NAME_RES = [
    ('stabilization', re.compile(r'^stabilization/(\d+)\.(\d+)\.(\d+)$')),
    ('development', re.compile(r'^development/(\d+)(?:\.(\d+))?$')),
    ('hotfix', re.compile(r'^hotfix/(\d+)\.(\d+)\.(\d+)$')),
    ('qw', re.compile(r'^q/w/(\d+)/(\d+(?:\.\d+){0,3})/(.+)$')),
    ('q', re.compile(r'^q/(\d+(?:\.\d+){0,3})$')),
    ('w', re.compile(r'^w/(\d+(?:\.\d+){0,3})/(.+)$')),
]


def classify(name):
    """Independent (harness-side) structural reading of a branch name.

    Returns dict(kind, ver (list of ints, -1 = no minor), pr, src)."""
    for kind, rx in _NAME_RES:
        m = rx.match(name)
        if not m:
            continue
        if kind in ('stabilization', 'hotfix'):
            return dict(kind=kind, ver=[int(x) for x in m.groups()], pr=0, src='')
        if kind == 'development':
            return dict(kind=kind, ver=[int(m.group(1)), int(m.group(2)) if m.group(2) else -1],
                        pr=0, src='')
        if kind == 'qw':
            return dict(kind=kind, ver=_ver(m.group(2)), pr=int(m.group(1)), src=m.group(3))
        if kind == 'q':
            return dict(kind=kind, ver=_ver(m.group(1)), pr=0, src='')
        if kind == 'w':
            return dict(kind=kind, ver=_ver(m.group(1)), pr=0, src=m.group(2))
    if name.startswith('tmp/'):
        return dict(kind='tmp', ver=[], pr=0, src='')
    return dict(kind='other', ver=[], pr=0, src='')


def _vs(ver):
    return '.'.join(str(x) for x in ver if x != -1)


def _tagver(n):
    m = re.match(r'^v?(\d+)\.(\d+)\.(\d+)$', n)
    return [int(x) for x in m.groups()] if m else []


def _ver(s):
    parts = [int(x) for x in s.split('.')]
    if len(parts) == 1:
        parts.append(-1)
    return parts


def sh(cmd, cwd, check=True, env=None):
    p = subprocess.run(cmd, shell=True, cwd=cwd, stdout=subprocess.PIPE, stderr=subprocess.STDOUT,
                       universal_newlines=True, env=env)
    if check and p.returncode != 0:
        raise RuntimeError('harness command failed: %s\n%s' % (cmd, p.stdout))
    return p.stdout


class Crash(Exception):
    """Raised by the interposers to simulate the death of the process / a failing remote op."""


class World:
    def __init__(self, scratch, branches, tags=None, settings=None, hotfix=None,
                 cmd_line_options=None, flat=False):
        """branches: destination branches in *inclusion order* (each is created on top of the
        previous one with one commit of its own), e.g.
           ['stabilization/4.3.18', 'development/4.3', 'development/5.1', 'development/10']
        tags: {tag: branch-or-'init'}; hotfix: list of hotfix branch names (forked from init).
        settings: overrides merged in the generated YAML (python values)."""
        self.scratch = scratch
        os.makedirs(scratch, exist_ok=True)
        self.home = os.path.join(scratch, 'home')
        os.makedirs(self.home, exist_ok=True)
        os.environ['HOME'] = self.home
        os.environ['TMPDIR'] = scratch
        os.environ['GIT_CONFIG_NOSYSTEM'] = '1'
        tempfile.tempdir = scratch
        self._import()
        self._reset_mock()
        self.cid = {}            # sha -> int
        self.sha = {}            # int -> sha
        self.commits = {}        # cid -> dict(par, robot, files)
        self.trace = []          # observation records
        self.k = 0
        self.ops = []            # remote ops of the current job
        self.opidx = 0
        self.crash_at = None     # fail every remote op with index >= crash_at
        self.before_push = {}    # op index -> callable
        self.current = None      # current job descriptor
        self.fcount = 0
        self.cmdlog = []
        self.tid = 0
        self.cmd_fault = None
        self.fail_cmd = None      # dict(match=regex, nth=k): the k-th matching (non-push) git command of the job fails
        self.cred_url = None
        self.extra_secrets = set()
        self.faulted = False
        self.pmap = {}           # symbolic PR index (order of opening) -> real PR id
        self.rng_eval = random.Random(12345)
        self.flat = flat                 # True: later branches start with the SAME content as the first one
        self.init_branches = list(branches)
        self.hotfix = list(hotfix or [])
        self.tags0 = dict(tags or {})
        self.settings_over = dict(settings or {})
        self.cmd_line_options = list(cmd_line_options or [])
        self._make_repo()
        self._make_berte()
        self._install_interposers()

    # ------------------------------------------------------------------ setup
    def _import(self):
        import bert_e.git_host.mock as mock
        import bert_e.git_host as git_host
        import bert_e.lib.retry as retry
        import bert_e.lib.git as libgit
        import bert_e.exceptions as exc
        from bert_e import bert_e as bemod
        self.mock, self.git_host, self.libgit, self.exc, self.bemod = \
            mock, git_host, libgit, exc, bemod
        retry.sleep = lambda s: None

        class _T:
            @staticmethod
            def sleep(s):
                return None
        libgit.time = _T
        # text -> template name (harness-side classification of robot messages)
        if not hasattr(exc, '_verif_render'):
            orig = exc.render
            table = {}

            def render(template, **kw):
                text = orig(template, **kw)
                table[text] = template[:-3]
                return text
            exc.render = render
            exc._verif_render = table
        self.msg_table = exc._verif_render

    def _reset_mock(self):
        m = self.mock
        m.PullRequest.items = []
        m.Comment.items = []
        m.Repository.repos = {}
        m.Repository.items = []
        m.Repository.revisions = {}

    def client(self, user):
        return self.git_host.client_factory('mock', user, 'pw_' + user, user + '@x.org')

    def _make_repo(self):
        self.clients = {u: self.client(u) for u in (ROBOT, CONTRIB, ADMIN, PEER1, PEER2)}
        self.clients[ADMIN].create_repository(SLUG, owner=OWNER)
        self.hosts = {u: c.get_repository(SLUG, owner=OWNER) for u, c in self.clients.items()}
        self.bare = self.hosts[ADMIN].git_url
        # update hook for per-ref rejection
        hook = os.path.join(self.bare, 'hooks', 'update')
        with open(hook, 'w') as f:
            f.write('#!/bin/sh\n[ -f "$GIT_DIR/verif_reject" ] && '
                    'grep -qx "$1" "$GIT_DIR/verif_reject" && '
                    '{ echo "rejected by policy: $1"; exit 1; }\nexit 0\n')
        os.chmod(hook, 0o755)
        self.user = os.path.join(self.scratch, 'user')
        os.makedirs(self.user)
        u = self.user
        sh('git init -q --initial-branch=master', u)
        sh('git config user.email contrib@x.org; git config user.name contrib;'
           'git config advice.detachedHead false', u)
        sh('echo init > init; git add init; git commit -q -m init', u)
        sh('git remote add origin %s' % self.bare, u)
        sh('git tag init_tag', u)
        prev = 'master'
        for i, b in enumerate(self.init_branches):
            sh('git checkout -q -b %s %s' % (b, prev), u)
            if not (self.flat and i > 0):
                fn = 'base_' + b.replace('/', '_')
                sh('echo %s > %s; git add %s; git commit -q -m "%s"' % (fn, fn, fn, fn), u)
            prev = b
        for h in self.hotfix:
            sh('git checkout -q -b %s master' % h, u)
            fn = 'base_' + h.replace('/', '_')
            sh('echo %s > %s; git add %s; git commit -q -m "%s"' % (fn, fn, fn, fn), u)
        for t, at in self.tags0.items():
            sh('git tag %s %s' % (t, 'master' if at == 'init' else at), u)
        sh('git tag -d init_tag', u)
        sh('git checkout -q --detach; git branch -q -D master', u)
        sh('git push -q --all origin; git push -q --tags origin', u)
        # third party clone
        self.third = os.path.join(self.scratch, 'third')
        sh('git clone -q %s %s' % (self.bare, self.third), self.scratch)
        sh('git config user.email third@x.org; git config user.name third;'
           'git config advice.detachedHead false', self.third)

    def _make_berte(self):
        from bert_e.settings import setup_settings
        s = dict(
            repository_owner=OWNER, repository_slug=SLUG, repository_host='mock',
            robot=ROBOT, robot_email='nobody@nowhere.com',
            always_create_integration_pull_requests=True,
            build_key=BUILD_KEY, required_leader_approvals=0, required_peer_approvals=1,
            admins=[ADMIN], project_leaders=[ADMIN],
        )
        over = dict(self.settings_over)
        self.runtime_over = {}
        for key in ('disable_queues', 'skip_queue_when_not_needed', 'use_queue'):
            if key in over:
                self.runtime_over[key] = over.pop(key)
        s.update(over)
        path = os.path.join(self.scratch, 'settings.yml')
        with open(path, 'w') as f:
            f.write(_yaml(s))
        self.settings_path = path
        settings = setup_settings(path)
        settings['robot_password'] = 'pw_robot'
        settings['jira_token'] = 'dummy'
        settings['cmd_line_options'] = self.cmd_line_options
        settings['backtrace'] = True
        settings.update(self.runtime_over)
        self.settings = settings
        self.berte = self.bemod.BertE(settings)

    def fresh_berte(self):
        """A new BertE instance on the same world (fresh-process stand-in: new object, new
        temporary clone directory; the mirror cache in $HOME stays, as it does across restarts)."""
        from bert_e.settings import setup_settings
        settings = setup_settings(self.settings_path)
        settings['robot_password'] = 'pw_robot'
        settings['jira_token'] = 'dummy'
        settings['cmd_line_options'] = self.cmd_line_options
        settings['backtrace'] = True
        settings.update(self.runtime_over)
        self.settings = settings
        self.berte = self.bemod.BertE(settings)
        return self.berte

    # ------------------------------------------------------------ interposers
    def _install_interposers(self):
        libgit = self.libgit
        world = self
        if not hasattr(libgit, '_verif_orig_cmd'):
            libgit._verif_orig_cmd = libgit.cmd
        orig = libgit._verif_orig_cmd

        def cmd(command, *a, **kw):
            w = World.active
            if w is None:
                return orig(command, *a, **kw)
            return w._git_cmd(orig, command, *a, **kw)
        libgit.cmd = cmd
        World.active = world
        m = self.mock
        if not hasattr(m, '_verif_wrapped'):
            m._verif_wrapped = True
            for cls, meth, opname in ((m.PullRequestController, 'add_comment', 'comment'),
                                      (m.PullRequestController, 'decline', 'decline'),
                                      (m.PullRequestController, 'set_bot_status', 'status'),
                                      (m.Repository, 'create_pull_request', 'create_pr')):
                _wrap_host(cls, meth, opname)

    active = None

    # ------------------------------------------------------------ fresh process (C10)
    def export_snapshot(self, path, job):
        """Everything a fresh OS process needs to rebuild this world: a copy of the bare repository,
        the mock host's state as plain data, the settings."""
        import pickle
        d = os.path.dirname(path)
        bare_copy = os.path.join(d, 'bare_' + os.path.basename(path))
        shutil.rmtree(bare_copy, ignore_errors=True)
        shutil.copytree(self.bare, bare_copy, symlinks=True)
        m = self.mock
        snap = dict(bare=bare_copy, prs=_strip(m.PullRequest.items), comments=list(m.Comment.items),
                    revisions=dict(m.Repository.revisions), settings_over=self.settings_over,
                    cmd_line_options=self.cmd_line_options, branches=self.init_branches, job=job,
                    orig_bare=self.bare)
        with open(path, 'wb') as f:
            pickle.dump(snap, f)

    @staticmethod
    def attach(w, scratch, snap):
        """Build a World object around an existing bare repository and exported host state."""
        w.scratch = scratch
        w.home = os.path.join(scratch, 'home')
        os.makedirs(w.home, exist_ok=True)
        os.environ['HOME'] = w.home
        os.environ['TMPDIR'] = scratch
        os.environ['GIT_CONFIG_NOSYSTEM'] = '1'
        tempfile.tempdir = scratch
        w._import()
        w._reset_mock()
        w.cid, w.sha, w.commits, w.trace = {}, {}, {}, []
        w.k = 0
        w.ops, w.opidx, w.crash_at, w.before_push, w.current = [], 0, None, {}, None
        w.fcount, w.cmdlog, w.tid, w.cmd_fault, w.cred_url, w.faulted = 0, [], 0, None, None, False
        w.fail_cmd = None
        w.pmap = {}
        w.rng_eval = random.Random(1)
        w.init_branches = snap['branches']
        w.hotfix, w.tags0 = [], {}
        w.settings_over = snap['settings_over']
        w.cmd_line_options = snap['cmd_line_options']
        w.clients = {u: w.client(u) for u in (ROBOT, CONTRIB, ADMIN, PEER1, PEER2)}
        m = w.mock
        gr = w.libgit.Repository(None)
        shutil.rmtree(gr.tmp_directory, ignore_errors=True)
        gr.tmp_directory = gr.cmd_directory = snap['bare']
        m.Repository.repos[(OWNER, SLUG)] = gr
        w.hosts = {u: c.get_repository(SLUG, owner=OWNER) for u, c in w.clients.items()}
        w.bare = snap['bare']
        m.Repository.revisions = dict(snap['revisions'])
        m.Comment.items = list(snap['comments'])
        m.PullRequest.items = _unstrip(snap['prs'], w)
        w._make_berte()
        w._install_interposers()

    # ------------------------------------------------------------ credentials (C16)
    def install_credentials(self, pw, host='bitbucket'):
        """Give the BertE instance the git repository object a production instance has: URL with the
        robot's credentials (built by the real git-host code) and the mask derived by the real
        BertE.__init__; a private git config maps that URL to the local bare repository, and a `git`
        wrapper early on PATH can make a command fail or hang while printing the URL as git does."""
        from types import SimpleNamespace
        from unittest import mock as umock
        from bert_e.settings import setup_settings
        if host == 'bitbucket':
            from bert_e.git_host import bitbucket as hostmod
            fake_client = SimpleNamespace(auth=SimpleNamespace(username=ROBOT, password=pw), login=ROBOT,
                                          get_user_id=lambda: 'uid')
            repo = hostmod.Repository(fake_client, owner=OWNER, repo_slug=SLUG)
        elif host == 'github_app':
            # a real github Client in App mode (scripted session): installation token + JWT are secrets too
            from cryptography.hazmat.primitives import serialization
            from cryptography.hazmat.primitives.asymmetric import rsa
            from cryptography.hazmat.backends import default_backend
            from bert_e.git_host import github as hostmod
            key = rsa.generate_private_key(public_exponent=65537, key_size=2048, backend=default_backend())
            pem = key.private_bytes(serialization.Encoding.PEM, serialization.PrivateFormat.PKCS8,
                                    serialization.NoEncryption()).decode()
            token = 'ghs_INSTALLTOKEN0123456789abcdefXYZ'
            self.extra_secrets = {token}
            world = self

            class Sess:
                headers = {}

                def post(self, url, **kw):
                    auth = (kw.get('headers') or {}).get('Authorization', '')
                    if auth.startswith('Bearer '):
                        world.extra_secrets.add(auth[len('Bearer '):])
                    return SimpleNamespace(status_code=201, raise_for_status=lambda: None,
                                           json=lambda: {'token': token}, text='{}', headers={})
            orig = hostmod.base.BertESession
            hostmod.base.BertESession = Sess
            hostmod.Client._get_installation_token.cache_clear()
            try:
                fake_client = hostmod.Client(login=ROBOT, password=pw, email='r@x.org', app_id=1, installation_id=7,
                                             private_key=pem, base_url='http://api')
            finally:
                hostmod.base.BertESession = orig
            repo = hostmod.Repository(fake_client, _validate=False, name=SLUG, owner={'login': OWNER},
                                      full_name='%s/%s' % (OWNER, SLUG))
            host = 'github'
        else:
            from bert_e.git_host import github as hostmod
            fake_client = SimpleNamespace(login=ROBOT, password=pw)
            repo = hostmod.Repository(fake_client, _validate=False, name=SLUG, owner={'login': OWNER},
                                      full_name='%s/%s' % (OWNER, SLUG))
        fake_client.get_repository = lambda *a, **kw: repo
        settings = setup_settings(self.settings_path)
        settings['repository_host'] = host
        settings['robot_password'] = pw
        settings['jira_token'] = 'dummy'
        settings['cmd_line_options'] = []
        with umock.patch.object(self.bemod, 'client_factory', lambda *a, **k: fake_client):
            prod = self.bemod.BertE(settings)          # the real constructor: URL + mask as in production
        self.cred_url = prod.git_repo._url
        self.berte.git_repo = prod.git_repo
        self.berte.settings['robot_password'] = pw
        subprocess.run(['git', 'config', '--file', os.path.join(self.home, '.gitconfig'),
                        'url.%s.insteadOf' % self.bare, self.cred_url], check=True)
        real_git = shutil.which('git')
        fdir = os.path.join(self.scratch, 'fakebin')
        os.makedirs(fdir, exist_ok=True)
        with open(os.path.join(fdir, 'git'), 'w') as f:
            f.write('#!/bin/sh\n'
                    'if [ "$VERIF_GIT_FAULT" = fail ]; then\n'
                    '  echo "remote: Invalid credentials"\n'
                    '  echo "fatal: unable to access \'$VERIF_GIT_URL/\': The requested URL returned error: 403" >&2\n'
                    '  echo "fatal: Authentication failed for \'$VERIF_GIT_URL/\'"\n'
                    '  exit 128\n'
                    'fi\n'
                    'if [ "$VERIF_GIT_FAULT" = hang ]; then\n'
                    '  echo "Fetching origin from $VERIF_GIT_URL"\n'
                    '  sleep 20\n'
                    'fi\n'
                    'exec %s "$@"\n' % real_git)
        os.chmod(os.path.join(fdir, 'git'), 0o755)
        if fdir not in os.environ['PATH'].split(':'):
            os.environ['PATH'] = fdir + ':' + os.environ['PATH']

    def _is_robot_ctx(self):
        return self.current is not None

    def _git_cmd(self, orig, command, *a, **kw):
        is_push = command.lstrip().startswith('git push')
        cwd = kw.get('cwd', '')
        if cwd == self.bare:
            return orig(command, *a, **kw)      # the mock git host's own commands, not Bert-E's
        if self.current is not None and self.fail_cmd and not is_push and \
                re.search(self.fail_cmd['match'], command):
            self.fail_cmd['seen'] = self.fail_cmd.get('seen', 0) + 1
            if self.fail_cmd['seen'] - 1 == self.fail_cmd.get('nth', 0):
                from bert_e.lib.simplecmd import CommandError
                self.cmdlog.append(command + '   # verif: made to fail')
                raise CommandError('verif: simulated failure of `%s`' % command.split('%')[0].strip())
        if self.current is not None:
            self.cmdlog.append(command)
            cf = self.cmd_fault
            if cf and len(self.cmdlog) - 1 == cf['at']:
                os.environ['VERIF_GIT_FAULT'] = cf['mode']
                os.environ['VERIF_GIT_URL'] = self.cred_url
                if cf['mode'] == 'hang':
                    kw['timeout'] = 1.0
                try:
                    return orig(command, *a, **kw)
                finally:
                    os.environ.pop('VERIF_GIT_FAULT', None)
        if not is_push or self.current is None or cwd == self.bare:
            return orig(command, *a, **kw)
        idx = self.opidx
        self.opidx += 1
        hook = self.before_push.pop(idx, None)
        if hook:
            hook()
            self.observe('third', op=dict(kind='third', idx=idx))
        if self.crash_at is not None and idx >= self.crash_at:
            self.ops.append(dict(kind='push', cmd=command, idx=idx, failed=True))
            from bert_e.lib.simplecmd import CommandError
            raise CommandError('verif: simulated crash before remote op %d' % idx)
        ok = True
        try:
            return orig(command, *a, **kw)
        except Exception:
            ok = False
            raise
        finally:
            op = dict(kind='push', cmd=command.strip(), idx=idx, failed=not ok)
            self.ops.append(op)
            self.observe('op', op=op)

    def _host_op(self, opname, fn, obj, a, kw):
        if self.current is None:
            return fn(obj, *a, **kw)
        client = getattr(obj, 'client', None)
        if getattr(client, 'login', None) != ROBOT:
            return fn(obj, *a, **kw)
        idx = self.opidx
        self.opidx += 1
        if self.crash_at is not None and idx >= self.crash_at:
            self.ops.append(dict(kind=opname, idx=idx, failed=True))
            raise Crash('verif: simulated crash before host op %d' % idx)
        r = fn(obj, *a, **kw)
        op = dict(kind=opname, idx=idx, failed=False)
        self.ops.append(op)
        self.observe('op', op=op)
        return r

    # ------------------------------------------------------------ environment
    def _fname(self, tag):
        self.fcount += 1
        return 'f_%s_%d' % (re.sub(r'[^A-Za-z0-9]', '_', tag), self.fcount)

    def _commit(self, cwd, fname, content=None):
        sh('echo %s > %s; git add %s; git commit -q -m "%s"' %
           (content or fname, fname, fname, fname), cwd)

    def open_pr(self, src, dst, user=CONTRIB, file=None, title=None, base=None, existing=False):
        """existing=True: a second pull request from a source branch that is already on the remote (a backport)."""
        u = self.user
        sh('git fetch -q --prune origin', u)
        if not existing:
            sh('git checkout -q -B %s origin/%s' % (src, base or dst), u)
            self._commit(u, file or self._fname(src), content=self._fname('c') if file else None)
            sh('git push -q origin %s' % src, u)
        pr = self.hosts[user].create_pull_request(
            title=title or ('title ' + src), name='name', src_branch=src, dst_branch=dst,
            description='descr')
        self.observe('env', act=dict(a='open_pr', pr=pr.id, src=src, dst=dst))
        return pr.id

    def pr(self, pr_id, user=ROBOT):
        return self.hosts[user].get_pull_request(int(pr_id))

    def push_src(self, pr_id, file=None):
        src = self.pr(pr_id).src_branch
        u = self.user
        sh('git fetch -q --prune origin; git checkout -q -B %s origin/%s' % (src, src), u)
        self._commit(u, file or self._fname(src), content=self._fname('c') if file else None)
        sh('git push -q origin %s' % src, u)
        self.observe('env', act=dict(a='push_src', pr=pr_id))

    def restart_src(self, pr_id, file=None):
        """Start the work again: force-push the source branch to one new commit on top of the destination."""
        p = self.pr(pr_id)
        src, dst = p.src_branch, p.dst_branch
        u = self.user
        sh('git fetch -q --prune origin; git checkout -q -B %s origin/%s' % (src, dst), u)
        self._commit(u, file or self._fname(src), content=self._fname('c') if file else None)
        sh('git push -q -f origin %s' % src, u)
        self.observe('env', act=dict(a='restart_src', pr=pr_id))

    def amend_src(self, pr_id):
        src = self.pr(pr_id).src_branch
        u = self.user
        sh('git fetch -q --prune origin; git checkout -q -B %s origin/%s' % (src, src), u)
        fn = self._fname(src)
        sh('echo %s > %s; git add %s; git commit -q --amend -m amended' % (fn, fn, fn), u)
        sh('git push -q -f origin %s' % src, u)
        self.observe('env', act=dict(a='amend_src', pr=pr_id))

    def rebase_src(self, pr_id):
        p = self.pr(pr_id)
        src, dst = p.src_branch, p.dst_branch
        u = self.user
        sh('git fetch -q --prune origin; git checkout -q -B %s origin/%s' % (src, src), u)
        sh('git rebase -q origin/%s' % dst, u)
        sh('git push -q -f origin %s' % src, u)
        self.observe('env', act=dict(a='rebase_src', pr=pr_id))

    def reset_src(self, pr_id):
        """Rewind the source branch by one commit (only if it keeps a commit of its own)."""
        p = self.pr(pr_id)
        src = p.src_branch
        u = self.user
        sh('git fetch -q --prune origin; git checkout -q -B %s origin/%s' % (src, src), u)
        sh('git reset -q --hard HEAD~1', u)
        sh('git push -q -f origin %s' % src, u)
        self.observe('env', act=dict(a='reset_src', pr=pr_id))

    def manual_commit(self, pr_id, wname, merge=False, file=None):
        u = self.user
        sh('git fetch -q --prune origin; git checkout -q -B %s origin/%s' % (wname, wname), u)
        if merge:
            sh('git checkout -q -b side_tmp HEAD~0', u)
            self._commit(u, self._fname('side'))
            sh('git checkout -q %s; git merge -q --no-ff --no-edit side_tmp; git branch -q -D side_tmp'
               % wname, u)
        else:
            self._commit(u, file or self._fname('manual'), content=self._fname('c') if file else None)
        sh('git push -q origin %s' % wname, u)
        self.observe('env', act=dict(a='manual_commit', pr=pr_id, w=wname, merge=merge))

    def resolve_conflict(self, pr_id, mode, wname=None, dst=None, prev=None):
        """What the `Conflict` message asks the user to do.  mode 'origin': merge the destination into the
        source branch; mode 'wbranch': create / update the integration branch from its destination, merge
        the previous integration branch (or the source) into it, resolving conflicts by taking both
        sides' content concatenated."""
        p = self.pr(pr_id)
        u = self.user
        sh('git fetch -q --prune origin', u)

        def merge(what):
            out = sh('git merge --no-edit %s' % what, u, check=False)
            if 'CONFLICT' in out or 'conflict' in out:
                files = sh('git diff --name-only --diff-filter=U', u).split()
                for f in files:
                    self.fcount += 1
                    sh('echo resolved_%d > %s; git add %s' % (self.fcount, f, f), u)
                sh('git commit -q --no-edit', u)
        if mode == 'origin':
            sh('git checkout -q -B %s origin/%s' % (p.src_branch, p.src_branch), u)
            merge('origin/%s' % p.dst_branch)
            sh('git push -q origin HEAD:%s' % p.src_branch, u)
        else:
            if self.tip(wname) is None:
                sh('git checkout -q -B %s origin/%s' % (wname, dst), u)
            else:
                sh('git checkout -q -B %s origin/%s' % (wname, wname), u)
                merge('origin/%s' % dst)
            merge('origin/%s' % prev)
            sh('git push -q origin HEAD:%s' % wname, u)
        self.observe('env', act=dict(a='resolve_conflict', pr=pr_id, mode=mode, w=wname or ''))

    def approve(self, pr_id, user):
        self.pr(pr_id, user).approve()
        self.observe('env', act=dict(a='approve', pr=pr_id, user=user))

    def unapprove(self, pr_id, user):
        self.pr(pr_id, user).dismiss(None)
        self.observe('env', act=dict(a='unapprove', pr=pr_id, user=user))

    def request_changes(self, pr_id, user):
        self.pr(pr_id, user).request_changes()
        self.observe('env', act=dict(a='request_changes', pr=pr_id, user=user))

    def comment(self, pr_id, user, text):
        c = self.pr(pr_id, user).add_comment(text)
        self.observe('env', act=dict(a='comment', pr=pr_id, user=user, text=text))
        return c

    def delete_comment(self, pr_id, text):
        for c in list(self.mock.Comment.items):
            if c.pull_request_id == pr_id and c.content['raw'] == text:
                self.mock.Comment.items.remove(c)
                self.observe('env', act=dict(a='del_comment', pr=pr_id, text=text))
                return True
        return False

    def decline(self, pr_id, user=CONTRIB):
        self.pr(pr_id, user).decline()
        self.observe('env', act=dict(a='decline', pr=pr_id))

    def report(self, sha, status, key=BUILD_KEY):
        self.hosts[ROBOT].set_build_status(sha, key, status)
        self.observe('env', act=dict(a='report', c=self.cid.get(sha, 0), status=status))

    def tip(self, name):
        out = sh('git rev-parse -q --verify refs/heads/%s' % name, self.bare, check=False).strip()
        return out if re.match(r'^[0-9a-f]{40}$', out) else None

    def refs(self):
        out = sh("git for-each-ref --format='%(refname) %(objectname)' refs/heads", self.bare)
        return {l.split()[0][len('refs/heads/'):]: l.split()[1] for l in out.splitlines()}

    def tags(self):
        out = sh("git for-each-ref --format='%(refname) %(objectname) %(*objectname)' refs/tags",
                 self.bare)
        r = {}
        for l in out.splitlines():
            p = l.split()
            r[p[0][len('refs/tags/'):]] = p[2] if len(p) > 2 else p[1]
        return r

    # third party actions (performed from the `third` clone; they never go through bert-e)
    def third_create_branch(self, name, frm=None):
        t = self.third
        sh('git fetch -q --prune origin', t)
        base = 'origin/' + (frm or self.init_branches[-1])
        sh('git checkout -q -B %s %s' % (name, base), t)
        self._commit(t, self._fname('third'))
        sh('git push -q origin %s' % name, t)

    def push_tag(self, tag, branch):
        """A release: somebody tags the tip of a destination branch."""
        u = self.user
        sh('git fetch -q --prune origin; git tag %s origin/%s; git push -q origin %s' % (tag, branch, tag), u)
        self.observe('env', act=dict(a='push_tag', tag=tag, branch=branch))

    def sync_mirror(self):
        """What the start of any job does to Bert-E's local mirror (~/.bert-e/<slug>.git): refresh it.  Stands for
        an event without effect delivered at this point."""
        top = os.path.join(self.home, '.bert-e')
        if os.path.isdir(top):
            for d in os.listdir(top):
                if d.endswith('.git'):
                    sh('git fetch -q --prune', os.path.join(top, d), check=False)

    def third_push(self, branch):
        t = self.third
        sh('git fetch -q --prune origin; git checkout -q -B %s origin/%s' % (branch, branch), t)
        self._commit(t, self._fname('third'))
        sh('git push -q origin %s' % branch, t)

    def third_force(self, branch):
        t = self.third
        sh('git fetch -q --prune origin; git checkout -q -B %s origin/%s' % (branch, branch), t)
        fn = self._fname('third')
        sh('echo %s > %s; git add %s; git commit -q --amend -m forced' % (fn, fn, fn), t)
        sh('git push -q -f origin %s' % branch, t)

    def third_rewind(self, branch):
        t = self.third
        sh('git fetch -q --prune origin; git checkout -q -B %s origin/%s' % (branch, branch), t)
        sh('git reset -q --hard HEAD~1', t)
        sh('git push -q -f origin %s' % branch, t)

    def reject_refs(self, names):
        path = os.path.join(self.bare, 'verif_reject')
        if names:
            with open(path, 'w') as f:
                f.write('\n'.join('refs/heads/' + n for n in names) + '\n')
        elif os.path.exists(path):
            os.unlink(path)

    # --------------------------------------------------------------- Bert-E
    def _run(self, desc, job):
        desc = dict(desc, status='', cmd='')
        if desc['kind'] == 'EvalPR':
            q = [p for p in self.mock.PullRequest.items if p.id == desc['arg']]
            if q and q[0].author['username'].lower() == ROBOT:
                ids = re.findall(r'\d+', q[0].description or '')
                desc['cmd'] = self.pending_cmd(int(ids[0])) if ids else ''
            else:
                desc['cmd'] = self.pending_cmd(desc['arg'])
        self.faulted = self.crash_at is not None or bool(self.before_push) or bool(self.fail_cmd) or \
            os.path.exists(os.path.join(self.bare, 'verif_reject'))
        self.current = desc
        self.ops = []
        self.opidx = 0
        self.cmdlog = []
        self.observe('job_begin')
        status = details = None
        try:
            self.berte.put_job(job)
            done = self.berte.process_task()
            status = done.status
            details = done.details
        finally:
            self.current = dict(desc, status=status if status is not None else 'HARNESS_ERROR')
            self.observe('job_end')
            self.last_ops = self.ops
            self.current = None
            self.crash_at = None
            self.before_push = {}
            self.fail_cmd = None
            self.faulted = False
        pending = len(self.berte.task_queue.queue)
        return dict(status=status, details=details, ops=list(self.last_ops), pending=pending)

    def eval_pr(self, pr_id, **settings):
        from bert_e.job import PullRequestJob
        job = PullRequestJob(bert_e=self.berte, pull_request=self.pr(pr_id), settings=settings)
        return self._run(dict(kind='EvalPR', arg=pr_id), job)

    def eval_commit(self, sha, **settings):
        from bert_e.job import CommitJob
        job = CommitJob(bert_e=self.berte, commit=sha, settings=settings)
        return self._run(dict(kind='EvalCommit', arg=self.cid.get(sha, 0)), job)

    def api_job(self, kind, **kw):
        from bert_e.jobs.create_branch import CreateBranchJob
        from bert_e.jobs.delete_branch import DeleteBranchJob
        from bert_e.jobs.delete_queues import DeleteQueuesJob
        from bert_e.jobs.rebuild_queues import RebuildQueuesJob
        from bert_e.jobs.force_merge_queues import ForceMergeQueuesJob
        cls = dict(CreateBranch=CreateBranchJob, DeleteBranch=DeleteBranchJob,
                   DeleteQueues=DeleteQueuesJob, RebuildQueues=RebuildQueuesJob,
                   ForceMerge=ForceMergeQueuesJob)[kind]
        job = cls(bert_e=self.berte, settings=dict(kw))
        return self._run(dict(kind=kind, arg=kw.get('branch', '')), job)

    def drain(self, limit=10):
        """Process jobs left in the task queue (e.g. PR jobs enqueued by RebuildQueues)."""
        res = []
        while self.berte.task_queue.queue and limit > 0:
            limit -= 1
            job = self.berte.task_queue.queue[0]
            kind = type(job).__name__
            arg = getattr(getattr(job, 'pull_request', None), 'id', 0)
            self.current = dict(kind='EvalPR' if kind == 'PullRequestJob' else kind, arg=arg)
            self.ops, self.opidx, self.cmdlog = [], 0, []
            self.observe('job_begin')
            done = self.berte.process_task()
            self.current = dict(self.current, status=done.status)
            self.observe('job_end')
            self.current = None
            res.append(done.status)
        return res

    # ------------------------------------------------------------ observation
    def _scan_commits(self):
        out = sh("git log --all --topo-order --reverse --format='@%H|%P|%an' --name-only",
                 self.bare, check=False)
        cur = None
        new = []
        for line in out.splitlines():
            if line.startswith('@'):
                h, par, an = line[1:].split('|', 2)
                if h in self.cid:
                    cur = None
                    continue
                n = len(self.cid) + 1
                self.cid[h] = n
                self.sha[n] = h
                cur = dict(id=n, par=[self.cid[p] for p in par.split()], robot=(an == ROBOT),
                           files=[])
                self.commits[n] = cur
                new.append(cur)
            elif line.strip() and cur is not None:
                cur['files'].append(line.strip())
        return new

    def observe(self, ev, op=None, act=None, chk=None):
        new = self._scan_commits()
        refs = []
        for name, sha in sorted(self.refs().items()):
            d = classify(name)
            d.update(n=name, c=self.cid[sha], vs=_vs(d['ver']))
            refs.append(d)
        tags = [dict(n=n, c=self.cid.get(s, 0), ver=_tagver(n),
                     arch=_ver(n) if re.match(r'^\d+(\.\d+){0,2}$', n) else [])   # archive tag of version n
                for n, s in sorted(self.tags().items())]
        m = self.mock
        prs = []
        for it in sorted(m.PullRequest.items, key=lambda x: x.id):
            author = it.author['username'].lower()
            parent = 0
            if author == ROBOT:
                ids = re.findall(r'\d+', it.description or '')
                parent = int(ids[0]) if ids else 0
            msgs = []
            for c in m.Comment.items:
                if c.pull_request_id != it.id:
                    continue
                au = c.user['username'].lower()
                text = c.content['raw']
                code = self.msg_table.get(text, 'text') if au == ROBOT else _user_code(text)
                msgs.append(dict(au=au, code=code, h=zlib.crc32(text.encode()) % 1000003))
            parts = it.participants
            src_name = it.source['branch']['name']
            sk = classify(src_name)
            tm = re.match(r'^INTEGRATION \[PR#(\d+) > ([^\]]+)\]', it.title or '')
            flags = self._pr_flags(it.id, author, src_name, it.destination['branch']['name'])
            prs.append(dict(
                id=it.id, src=src_name, dst=it.destination['branch']['name'],
                author=author, state=it.state, parent=parent, title=it.title, msgs=msgs,
                srck=sk['kind'], srcsrc=sk['src'],
                titlepr=int(tm.group(1)) if tm else 0, titledst=tm.group(2) if tm else '',
                **flags,
                appr=sorted(p['user']['username'] for p in parts if p['approved']),
                chg=sorted(p['user']['username'] for p in parts if p['changes_requested'])))
        builds = []
        for (rev, key), st in m.Repository.revisions.items():
            if key != BUILD_KEY:
                continue
            full = [s for s in self.cid if s.startswith(rev)] if len(rev) < 40 else [rev]
            for s in full:
                if s in self.cid:
                    builds.append(dict(c=self.cid[s], s=st))
        self.k += 1
        job = dict(kind='', arg=0, status='', cmd='', pending=[], faulted=False)
        if self.current:
            job.update(self.current)
            job['faulted'] = bool(self.faulted)
            if ev == 'job_end':
                job['pending'] = [getattr(getattr(j, 'pull_request', None), 'id', 0)
                                  for j in self.berte.task_queue.queue]
        rec = dict(tid=self.tid, k=self.k, ev=ev, newc=new, refs=refs, tags=tags, prs=prs,
                   builds=sorted(builds, key=lambda b: b['c']), job=job, cfg=self.cfg(),
                   op=op or {}, act=act or {},
                   chk=chk or dict(kind='', dt=[], ref=[]))
        self.trace.append(rec)
        return rec

    def cfg(self):
        st = self.settings
        return dict(use_queue=bool(st.use_queue), skip=bool(st.skip_queue_when_not_needed),
                    build_key=st.build_key or '')

    def _addressed(self, text):
        t = text.strip()
        if t.startswith('@' + ROBOT):
            return re.sub(r'[,.\-/:;|+]', ' ', t[len('@' + ROBOT):]).split()
        if re.match(r'^/[\w=]+([\s,.\-:;|+]+/[\w=]+)*\s*$', t):
            return re.sub(r'[,.\-/:;|+]', ' ', t).split()
        return []

    def _pr_flags(self, pr_id, author, src, dst):
        """Harness-side reading of the options in force on a PR (independent of bert-e's
        reactor; the drivers only post clean single-purpose comments)."""
        byp = 'bypass_build_status' in self.cmd_line_options
        pao = self.settings_over.get('pr_author_options', {})
        if 'bypass_build_status' in pao.get(author, []):
            byp = True
        wait, after = False, []
        for c in self.mock.Comment.items:
            if c.pull_request_id != pr_id:
                continue
            au = c.user['username'].lower()
            words = self._addressed(c.content['raw'])
            for wd in words:
                if wd == 'bypass_build_status' and au == ADMIN and au != author:
                    byp = True
                if wd == 'wait':
                    wait = True
                m = re.match(r'^after_pull_request=(\d+)$', wd)
                if m:
                    after.append(int(m.group(1)))
        handled = bool(re.match(r'^(improvement|bugfix|feature|project|documentation|design|'
                                r'dependabot|epic|bug)/.+$', src) or
                       re.match(r'^development/\d+(\.\d+)?$', src) or
                       re.match(r'^stabilization/\d+\.\d+\.\d+$', src)) and \
            bool(re.match(r'^(development/\d+(\.\d+)?|stabilization/\d+\.\d+\.\d+|'
                          r'hotfix/\d+\.\d+\.\d+)$', dst))
        return dict(byp=byp, wait=wait, after=sorted(set(after)), handled=handled)

    def pending_cmd(self, pr_id):
        """The most recent addressed command comment newer than the robot's last message."""
        cmds = ('reset', 'force_reset', 'help', 'status', 'build', 'retry', 'clear')
        found = ''
        for c in reversed([c for c in self.mock.Comment.items if c.pull_request_id == pr_id]):
            if c.user['username'].lower() == ROBOT:
                break
            words = self._addressed(c.content['raw'])
            if words and words[0] in cmds:
                found = 'cmd:' + words[0]
        return found

    # --------------------------------------------------------------- snapshot
    def snapshot(self):
        d = tempfile.mkdtemp(prefix='snap', dir=self.scratch)
        shutil.copytree(self.bare, os.path.join(d, 'bare'), symlinks=True)
        cache = os.path.join(self.home, '.bert-e')
        if os.path.isdir(cache):
            shutil.copytree(cache, os.path.join(d, 'cache'), symlinks=True)
        m = self.mock
        host = copy.deepcopy((_strip(m.PullRequest.items), _strip(m.Comment.items),
                              m.Repository.revisions))
        return dict(dir=d, host=host, cid=dict(self.cid), sha=dict(self.sha),
                    commits=copy.deepcopy(self.commits), k=self.k, ntrace=len(self.trace),
                    fcount=self.fcount)

    def restore(self, snap):
        for sub, dst in (('bare', self.bare), ('cache', os.path.join(self.home, '.bert-e'))):
            src = os.path.join(snap['dir'], sub)
            if os.path.isdir(dst):
                shutil.rmtree(dst)
            if os.path.isdir(src):
                shutil.copytree(src, dst, symlinks=True)
        m = self.mock
        prs, comments, revs = copy.deepcopy(snap['host'])
        m.PullRequest.items = _unstrip(prs, self)
        m.Comment.items = comments
        m.Repository.revisions = revs
        self.cid, self.sha = dict(snap['cid']), dict(snap['sha'])
        self.commits = copy.deepcopy(snap['commits'])
        self.k = snap['k']
        del self.trace[snap['ntrace']:]
        self.fcount = snap['fcount']
        self.reject_refs([])
        while self.berte.task_queue.queue:
            self.berte.task_queue.get()
            self.berte.task_queue.task_done()

    def drop_snapshot(self, snap):
        shutil.rmtree(snap['dir'], ignore_errors=True)

    def close(self):
        World.active = None
        try:
            self.berte.git_repo.delete()
        except Exception:
            pass


def _strip(items):
    """PullRequest objects reference the mock Repository (with a git repo object); keep a plain
    description that can be deep-copied."""
    out = []
    for it in items:
        if not hasattr(it, 'participants'):
            out.append(it)
            continue
        out.append(dict(id=it.id, title=it.title, description=it.description, _state=it._state,
                        author=it.author, participants=it.participants,
                        src=it.source['branch']['name'], dst=it.destination['branch']['name'],
                        src_commit=it.source['commit'] if isinstance(it.source['commit'], dict)
                        else None,
                        client_login=it.client.login))
    return out


def _unstrip(descs, world):
    m = world.mock
    out = []
    for d in descs:
        if not isinstance(d, dict):
            out.append(d)
            continue
        repo = world.hosts[d['client_login']] if d['client_login'] in world.hosts \
            else world.hosts[CONTRIB]
        repo.get_git_url()
        saved = m.PullRequest.items
        m.PullRequest.items = [None] * (d['id'] - 1)
        pr = m.PullRequest(repo, d['title'], 'name', {'branch': {'name': d['src']}},
                           {'branch': {'name': d['dst']}}, True, [], d['description'])
        m.PullRequest.items = saved
        pr._state = d['_state']
        pr.author = d['author']
        pr.participants = d['participants']
        if d['src_commit'] is not None:
            pr.source['commit'] = d['src_commit']
        out.append(pr)
    return out


def _wrap_host(cls, meth, opname):
    fn = getattr(cls, meth)

    def wrapper(self, *a, **kw):
        w = World.active
        if w is None:
            return fn(self, *a, **kw)
        return w._host_op(opname, fn, self, a, kw)
    wrapper.__name__ = meth
    setattr(cls, meth, wrapper)


def _user_code(text):
    t = text.strip()
    if t.startswith('@' + ROBOT) or t.startswith('/'):
        words = re.sub(r'[,.\-/:;|+]', ' ', t[len('@' + ROBOT):] if t.startswith('@') else t).split()
        return 'cmd:' + ' '.join(words)
    return 'text'


def _yaml(d, indent=0):
    out = []
    pad = ' ' * indent
    for k, v in d.items():
        if isinstance(v, dict):
            out.append('%s%s:' % (pad, k))
            out.append(_yaml(v, indent + 2))
        elif isinstance(v, (list, tuple)):
            out.append('%s%s:' % (pad, k))
            for x in v:
                out.append('%s  - %s' % (pad, x))
            if not v:
                out[-1] = '%s%s: []' % (pad, k)
        elif isinstance(v, bool):
            out.append('%s%s: %s' % (pad, k, 'true' if v else 'false'))
        else:
            out.append('%s%s: %s' % (pad, k, v))
    return '\n'.join(out) + ('\n' if indent == 0 else '')
