"""Deterministic line scheduler for the real BertE.put_job / BertE.process_task (C13).

Every actor (request threads calling put_job, the worker thread looping on process_task) runs with a
sys.settrace hook that parks it before every source line of those two methods; the scheduler grants one
line at a time to one actor, so an interleaving at source-line granularity is an explicit list of choices.
After each granted step the shared state (task queue keys, current-job marker, tasks_done[0]) is read and
the events of spec/Server.tla are derived from the state changes (not from line numbers, so refactorings
of the two methods do not break the binding).
"""
import collections
import sys
import threading
from queue import Queue

STEP_TIMEOUT = 5.0


class _Kill(BaseException):
    pass


class Actor:
    def __init__(self, name, fn):
        self.name = name
        self.fn = fn
        self.go = threading.Semaphore(0)
        self.parked = threading.Semaphore(0)
        self.finished = False
        self.where = None        # ('call', None) | ('line', lineno, first_line_of_process_task)
        self.kill = False
        self.error = None
        self.thread = None


class Execution:
    """One controlled execution of a scenario under a schedule prefix."""

    def __init__(self, berte, target_codes, first_line_pt):
        self.berte = berte
        self.codes = target_codes           # code objects of put_job / process_task
        self.first_pt = first_line_pt
        self.actors = {}
        self.events = []
        self.n = 0

    # ---- tracing
    def _global_trace(self, actor):
        def local(frame, event, arg):
            if event == 'line':
                self._park(actor, ('line', frame.f_lineno, frame.f_code.co_name))
            return local

        def glob(frame, event, arg):
            if event == 'call' and frame.f_code in self.codes:
                return local
            return None
        return glob

    def _park(self, actor, where):
        actor.where = where
        actor.parked.release()
        actor.go.acquire()
        if actor.kill:
            raise _Kill()

    def park_call(self, actor):
        self._park(actor, ('call', None, None))

    def _run_actor(self, actor):
        sys.settrace(self._global_trace(actor))
        try:
            actor.go.acquire()
            if actor.kill:
                raise _Kill()
            actor.fn(actor)
        except _Kill:
            pass
        except BaseException as e:                       # noqa
            actor.error = e
        finally:
            sys.settrace(None)
            actor.finished = True
            actor.parked.release()

    def add(self, name, fn):
        a = Actor(name, fn)
        self.actors[name] = a
        a.thread = threading.Thread(target=self._run_actor, args=(a,), daemon=True)
        a.thread.start()
        a.where = ('start', None, None)
        return a

    # ---- state
    def keyof(self, job):
        return getattr(job, 'vkey', '?')

    def snapshot(self):
        b = self.berte
        cur = b.status.get('current job')
        d0 = b.tasks_done[0] if b.tasks_done else None
        return dict(q=[self.keyof(j) for j in list(b.task_queue.queue)],
                    cur=self.keyof(cur) if cur is not None else 'none',
                    d0=dict(k=self.keyof(d0), status=d0.status) if d0 is not None else dict(k='none', status=''),
                    nd=len(b.tasks_done),
                    curstatus=cur.status if cur is not None else None)

    def emit(self, ev, h='', k='', o='', snap=None):
        self.n += 1
        s = snap or self.snapshot()
        self.events.append(dict(n=self.n, ev=ev, h=h, k=k, o=o, q=s['q'], cur=s['cur'], d0=s['d0']))

    def enabled(self, a):
        if a.finished:
            return False
        if a.name == 'worker' and a.where and a.where[0] == 'line' and a.where[1] == self.first_pt \
                and a.where[2] == 'process_task':
            return self.berte.task_queue.qsize() > 0
        if a.name == 'worker' and a.where and a.where[0] == 'start':
            return True
        return True

    def grant(self, a):
        """Let actor a execute one step; derive events from the state change."""
        before = self.snapshot()
        was = a.where
        a.go.release()
        if not a.parked.acquire(timeout=STEP_TIMEOUT):
            raise RuntimeError('actor %s did not park again (blocked?) at %r' % (a.name, was))
        after = self.snapshot()
        if a.name == 'worker':
            if a.error is not None:
                self.emit('worker_died', snap=after)
                return
            if len(after['q']) < len(before['q']) or (before['cur'] == 'none' and after['cur'] != 'none'):
                self.emit('get', k=after['cur'] if after['cur'] != 'none' else (before['q'][0] if before['q'] else '?'),
                          snap=after)
            st_b = before['curstatus'] if before['cur'] != 'none' else None
            st_a = after['curstatus'] if after['cur'] != 'none' else None
            if after['cur'] != 'none' and st_a and st_a != st_b:
                self.emit('status', o=st_a, snap=after)
            if after['nd'] > before['nd']:
                self.emit('append', snap=after)
            if before['cur'] != 'none' and after['cur'] == 'none':
                self.emit('clear', snap=after)
        else:
            st = a.state
            if was[0] == 'call' and st.get('phase') == 'calling':
                self.emit('enter', h=a.name, k=st['k'], snap=before)
                st['phase'] = 'entered'
                st['checked'] = False
                st['put'] = False
            elif st.get('phase') == 'entered':
                if not st['checked']:
                    st['checked'] = True
                    self.emit('check', h=a.name, snap=before)
            if len(after['q']) > len(before['q']):
                st['put'] = True
                self.emit('put', h=a.name, snap=after)
            if st.get('phase') == 'entered' and (a.finished or a.where[0] == 'call'):
                if not st['put']:
                    if not st['checked']:
                        self.emit('check', h=a.name, snap=before)
                    self.emit('drop', h=a.name, snap=after)
                st['phase'] = 'idle'
            if a.error is not None:
                raise RuntimeError('hook actor failed: %r' % (a.error,))

    def kill_all(self):
        for a in self.actors.values():
            if not a.finished:
                a.kill = True
                a.go.release()
        for a in self.actors.values():
            a.thread.join(timeout=2)


def run_schedule(make_world, prefix, max_steps=2000):
    """make_world() -> (berte, hooks {name: [(key, job)]}, codes, first_line).  Runs one execution:
    follows `prefix` (actor names), then continues with a non-preemptive default policy.  Returns
    (events, choices [(chosen, enabled names)])."""
    berte, hooks, codes, first_pt = make_world()
    ex = Execution(berte, codes, first_pt)

    def hook_fn(jobs):
        def fn(actor):
            for k, job in jobs:
                actor.state['k'] = k
                actor.state['phase'] = 'calling'
                ex.park_call(actor)
                berte.put_job(job)
            actor.state['phase'] = actor.state.get('phase', 'idle')
        return fn

    def worker_fn(actor):
        while True:
            berte.process_task()

    for name, jobs in hooks.items():
        a = ex.add(name, hook_fn(jobs))
        a.state = {}
    w = ex.add('worker', worker_fn)
    w.state = {}
    # bring every actor to its first park point
    for a in ex.actors.values():
        a.go.release()
        if not a.parked.acquire(timeout=STEP_TIMEOUT):
            raise RuntimeError('actor %s did not reach its first park point' % a.name)
    choices = []
    last = None
    try:
        for step in range(max_steps):
            en = [n for n, a in sorted(ex.actors.items()) if ex.enabled(a)]
            if not en:
                break
            if step < len(prefix) and prefix[step] in en:
                pick = prefix[step]
            elif last in en:
                pick = last
            else:
                pick = en[0]
            choices.append((pick, en))
            ex.grant(ex.actors[pick])
            last = pick
        else:
            raise RuntimeError('execution did not terminate')
        hooks_done = all(a.finished for n, a in ex.actors.items() if n != 'worker')
        if hooks_done and not ex.actors['worker'].finished:
            ex.emit('quiescent')
    finally:
        ex.kill_all()
    return ex.events, choices


def explore(make_world, max_preemptions, limit, on_exec):
    """Stateless exploration of all schedules with at most `max_preemptions` preemptions (CHESS
    style).  on_exec(events, choices) is called for every execution. Returns number of executions."""
    stack = [([], 0)]
    seen = set()
    n = 0
    while stack and n < limit:
        prefix, pre = stack.pop()
        key = tuple(prefix)
        if key in seen:
            continue
        seen.add(key)
        events, choices = run_schedule(make_world, prefix)
        n += 1
        on_exec(events, choices)
        # alternatives after the prefix
        for idx in range(len(prefix), len(choices)):
            chosen, en = choices[idx]
            prev = choices[idx - 1][0] if idx > 0 else None
            for alt in en:
                if alt == chosen:
                    continue
                cost = 1 if (prev is not None and prev in en and alt != prev) else 0
                base = sum(1 for j in range(1, idx) if choices[j][0] != choices[j - 1][0] and
                           choices[j - 1][0] in choices[j][1])
                if base + cost <= max_preemptions:
                    stack.append(([c for c, _ in choices[:idx]] + [alt], base + cost))
    return n
