"""System-level checks (C01 C02 C03 C06 C08 C10 C12 C15 C19 C20).

One shared exploration (`sysrun`) per (tier, seed, tree hash):
  1. TLC model-checks the system machine spec/BertE.tla on the exhaustive configurations
     (design level: every invariant / action property in every reachable state within the bounds);
  2. TLC -simulate generates behaviours of BertE.tla which are replayed on the real code with the
     projection compared after every step (conformance, spec -> code);
  3. scripted scenario families and fault / third-party variants are executed on the real code;
  4. every observation stream recorded from the real code is judged by the TLA+ property monitors
     (spec/TraceMon.tla + Monitors.tla) - the verdicts come from there (code -> spec).
"""
import collections
import glob
import hashlib
import json
import multiprocessing as mp
import os
import random
import shutil
import sys
import time

from . import explore, families, specgen, tlc, evidence
from .families import world, open_pr, approve, last_q, CASCADES

VERIF = explore.VERIF
CACHE = os.path.join(VERIF, '.cache')

SYS_PROPS = ['C01', 'C02', 'C03', 'C06', 'C08', 'C10', 'C12', 'C15', 'C19', 'C20']

# exhaustive configurations of S: (cfg file, properties whose design-level statement it checks)
MC_CFGS = {
    'quick': ['BertE.q.cfg', 'BertE.nq.cfg', 'BertE.sk.cfg', 'BertE.qs.cfg', 'BertE.fq.cfg', 'BertE.qh.cfg', 'BertE.r.cfg', 'BertE.adm.cfg', 'BertE.ap.cfg', 'BertE.cv.cfg'],
    'thorough': ['BertE.q.t.cfg', 'BertE.nq.t.cfg', 'BertE.sk.t.cfg', 'BertE.qs.t.cfg', 'BertE.q3.t.cfg', 'BertE.qh.t.cfg', 'BertE.r.t.cfg', 'BertE.r2.cfg', 'BertE.adm.t.cfg', 'BertE.fa.cfg', 'BertE.o.cfg',
                 'BertE.f.cfg', 'BertE.fp.cfg', 'BertE.fr.cfg', 'BertE.wnq.cfg', 'BertE.wq.cfg'],
}
SIM_CFGS = {
    'quick': [('BertE.sim.cfg', 16, 30), ('BertE.simsk.cfg', 12, 30), ('BertE.simnq.cfg', 8, 24),
              ('BertE.sims.cfg', 12, 30), ('BertE.simf.cfg', 12, 45), ('BertE.simh.cfg', 10, 30), ('BertE.simr.cfg', 12, 36), ('BertE.sima.cfg', 12, 36), ('BertE.simo.cfg', 8, 32)],
    'thorough': [('BertE.sim.cfg', 150, 40), ('BertE.simsk.cfg', 150, 40), ('BertE.simnq.cfg', 150, 30),
                 ('BertE.sims.cfg', 150, 40), ('BertE.simf.cfg', 150, 60), ('BertE.simsa.cfg', 150, 40), ('BertE.simh.cfg', 150, 40), ('BertE.simr.cfg', 150, 45), ('BertE.sima.cfg', 150, 45), ('BertE.simm.cfg', 150, 40), ('BertE.simam.cfg', 150, 40), ('BertE.simfa.cfg', 150, 60), ('BertE.simo.cfg', 150, 40)],
}


# ----------------------------------------------------------------------------- fault variants
def fault_bases(tier):
    out = []
    cascs = ['B3', 'D3s', 'H3h'] if tier == 'quick' else ['B3', 'D3s', 'E3m', 'F4', 'H3h']
    for casc in cascs:
        ds = CASCADES[casc]['branches']
        for mode in ('queue', 'noqueue', 'skip'):
            if casc == 'H3h' and mode != 'queue':
                continue
            first = CASCADES[casc]['hotfix'][0] if casc == 'H3h' else ds[0]      # a hotfix pull request + its own queue
            steps = [open_pr(1, first), open_pr(2, ds[1] if mode != 'skip' else ds[0]),
                     {"a": "eval_pr", "p": 1}] + approve(1) + [
                     {"a": "eval_pr", "p": 1}, {"a": "report_pr", "p": 1, "status": "SUCCESSFUL"},
                     {"a": "eval_pr", "p": 1},
                     {"a": "eval_pr", "p": 2}] + approve(2) + [
                     {"a": "report_pr", "p": 2, "status": "SUCCESSFUL"}, {"a": "eval_pr", "p": 2},
                     {"a": "report_pr", "p": 2, "status": "SUCCESSFUL"}, {"a": "eval_pr", "p": 2}]
            if mode != 'noqueue':
                steps += [{"a": "report_queue", "status": "SUCCESSFUL"},
                          {"a": "eval_commit", "ref": last_q(casc)}]
            steps += [{"a": "decline_open"}, {"a": "eval_pr", "p": 1}, {"a": "eval_pr", "p": 2}]
            out.append(dict(id='fbase/%s/%s' % (casc, mode), world=world(casc, mode), steps=steps))
    # an administrative job with queued work: a newest development branch is created (the job pushes the
    # branch, then rebuilds the queues), a queue reset, an old branch is deleted
    for newb, lastq in (('development/11.0', 'q/11.0'),):
        steps = [open_pr(1, 'development/4.3'), {"a": "eval_pr", "p": 1}] + approve(1) + [
                 {"a": "report_pr", "p": 1, "status": "SUCCESSFUL"}, {"a": "eval_pr", "p": 1},
                 {"a": "api", "kind": "CreateBranch", "branch": newb}, {"a": "drain"},
                 {"a": "report_pr", "p": 1, "status": "SUCCESSFUL"}, {"a": "eval_pr", "p": 1},
                 {"a": "report_queue", "status": "SUCCESSFUL"}, {"a": "eval_commit", "ref": lastq},
                 {"a": "api", "kind": "DeleteBranch", "branch": "development/4.3"},
                 {"a": "eval_pr", "p": 1}]
        out.append(dict(id='fbase/admin/B3/queue', world=world('B3', 'queue'), steps=steps))
    return out


JOB_STEPS = ('eval_pr', 'eval_commit', 'api', 'eval_child')


def make_variants(base, out, rng, tier):
    """From one executed base scenario derive the crash / reject / third-party variants."""
    jobs = [r for r in out['results'] if r.get('step') in JOB_STEPS]
    jidx = [i for i, st in enumerate(base['steps']) if st['a'] in JOB_STEPS]
    if len(jobs) != len(jidx):
        return []
    # ops and refs of each job from the recorded trace
    trace = out['trace']
    begins = [n for n, rec in enumerate(trace) if rec['ev'] == 'job_begin']
    ends = [n for n, rec in enumerate(trace) if rec['ev'] == 'job_end']
    vs = []
    core_cmdfail = set()       # a job that ends with a pruning push, started on a stale mirror: always run
    for j, (si, b, e) in enumerate(zip(jidx, begins, ends)):
        ops = [rec for rec in trace[b:e + 1] if rec['ev'] == 'op']
        nops = len(ops)
        dtrees = out['dtrees'][j] if j < len(out.get('dtrees', [])) else None
        step = base['steps'][si]
        for k in range(nops):
            vs.append(('crash', si, dict(crash_at=k), j))
        pushrefs = set()
        prevrefs = {r['n']: r['c'] for r in trace[b]['refs']}
        for rec in trace[b + 1:e + 1]:
            cur = {r['n']: r['c'] for r in rec['refs']}
            if rec['ev'] == 'op' and rec['op'].get('kind') == 'push':
                for n in set(cur) | set(prevrefs):
                    if cur.get(n) != prevrefs.get(n):
                        pushrefs.add(n)
            prevrefs = cur
        for n in sorted(pushrefs):
            vs.append(('reject', si, dict(reject=[n]), j))
        # a read-side command of the job fails (mirror refresh, clone, remote update), a foreign branch having
        # been pushed since the previous job
        prunes = any('--prune' in (rec['op'].get('cmd') or '') for rec in ops)
        for pat in (r'git fetch --prune', r'git remote update', r'git clone --mirror'):
            vs.append(('cmdfail', si, dict(fail_cmd=dict(match=pat, nth=0, third_before=True)), j))
            if prunes and pat == r'git fetch --prune':
                core_cmdfail.add(len(vs) - 1)
        pushes = [rec['op']['idx'] for rec in ops if rec['op'].get('kind') == 'push']
        for k in pushes:
            for act in ('create_branch', 'push_src', 'force_src', 'rewind_src'):
                vs.append(('third', si, dict(third=dict(at=k, act=act, p=1 + (k + j) % 2)), j))
    res = []
    for vn, (kind, si, fault, j) in enumerate(vs):
        steps = [dict(s) for s in base['steps'][:si]]
        fs = dict(base['steps'][si])
        fs.update(fault)
        steps.append(fs)
        if kind in ('crash', 'reject', 'cmdfail'):
            steps.append({"a": "recover", "step": dict(base['steps'][si]), "job": j,
                          "expect": out['dtrees'][j]})
        steps += [dict(s) for s in base['steps'][si + 1:]]
        steps.append({"a": "final_check", "expect": out['dtrees'][-1] if kind not in ('third',) else None})
        res.append(dict(id='%s|%s|step%d|%s' % (base['id'], kind, si, json.dumps(fault, sort_keys=True)),
                        world=base['world'], steps=steps, fault=dict(kind=kind, **fault),
                        # interrupted administrative jobs are few: always run (quick tier too)
                        core=(base['steps'][si]['a'] == 'api' and kind in ('crash', 'reject')) or vn in core_cmdfail))
    return res


# ----------------------------------------------------------------------------- the shared run
def _mc_one(args):
    cfg, scratch, budget_s, workers = args
    # heap per JVM: four run side by side
    r = tlc.run_tlc('BertE.tla', cfg, scratch, workers=workers, timeout=budget_s, java_opts=('-Xmx8g',))
    return dict(cfg=cfg, ok=r['ok'], states=r['states'], distinct=r['distinct'],
                depth=r['depth'], violated=r['violated'], wall_s=round(r['wall_s'], 1),
                tail=r['out'][-1500:] if not r['ok'] else '')


def run_mc(cfgs, scratch, budget_s):
    """Exhaustive configurations of S, four at a time (4 TLC workers each: better throughput than 16 workers on one)."""
    from concurrent.futures import ThreadPoolExecutor
    cfgs = [c for c in cfgs if os.path.exists(os.path.join(tlc.SPEC_DIR, c))]
    with ThreadPoolExecutor(4) as ex:
        return list(ex.map(_mc_one, [(c, scratch, budget_s, 4) for c in cfgs]))


class Spill:
    """Observation streams go to ndjson shard files as soon as a group of executions is finished; only small
    summaries stay in memory (the parent process is forked for every scenario: it must stay small)."""
    def __init__(self, scratch, shards=16):
        self.scratch = scratch
        self.paths = [os.path.join(scratch, 'stream_%02d.ndjson' % i) for i in range(shards)]
        self.tid = 0
        self.statuses = collections.Counter()
        self.jobs = 0
        self.outs = []

    def add(self, group):
        fs = {}
        for o in group:
            self.tid += 1
            o['tid'] = self.tid
            path = self.paths[self.tid % len(self.paths)]
            f = fs.get(path)
            if f is None:
                f = fs[path] = open(path, 'a')
            hist = []
            for rec in o['trace']:
                rec['tid'] = self.tid
                f.write(json.dumps(rec) + '\n')
                if rec['ev'] == 'job_end':
                    self.statuses[rec['job']['status']] += 1
                    self.jobs += 1
                if rec['ev'] in ('env', 'job_end') and len(hist) < 14:
                    hist.append(rec['act'] or dict(job=rec['job']['kind'], arg=rec['job']['arg'],
                                                   status=rec['job']['status']))
            o['hist'] = hist
            o['shard'] = path
            o['trace'] = []
            o.pop('results', None)
            self.outs.append(o)
        for f in fs.values():
            f.close()

    def lines(self, pairs):
        """Records (tid, k) -> rec, one pass over each shard file concerned."""
        byid = {o['tid']: o for o in self.outs}
        want = {}
        for (t, k) in pairs:
            want.setdefault(byid[t]['shard'], set()).add((t, k))
        out = {}
        for path, keys in want.items():
            tids = {t for (t, _) in keys}
            with open(path) as f:
                for ln in f:
                    # cheap pre-filter before parsing
                    if '"tid": ' not in ln:
                        continue
                    rec = json.loads(ln)
                    if rec['tid'] in tids and (rec['tid'], rec['k']) in keys:
                        out[(rec['tid'], rec['k'])] = rec
        return out


def run_sim(sims, scratch, seed, sink=None):
    outs, stats = [], []
    tid = 100000
    for cfgname, num, depth in sims:
        cfgp = os.path.join(tlc.SPEC_DIR, cfgname)
        if not os.path.exists(cfgp):
            continue
        cfg = specgen.parse_cfg(cfgp)
        behs, r = specgen.simulate(cfgname, scratch, num, depth, seed)
        args = []
        for b in behs:
            tid += 1
            args.append((cfg, b, scratch, tid))
        with mp.get_context('fork').Pool(16, maxtasksperchild=1) as pool:
            o = pool.map(specgen.replay_behaviour, args, chunksize=1)
        for x in o:
            x['id'] = 'spec/%s/%d' % (cfgname, x['tid'])
            x['results'] = []
        if sink is not None:
            sink(o)                      # streams written to disk, traces dropped from memory
        outs += o
        acts = collections.Counter()
        for x in o:
            for l in x['labels']:
                acts[l[0] if l[0] not in ('job', 'job_begin') else '%s:%s:%s' % (l[0], l[1], l[3])] += 1
        stats.append(dict(cfg=cfgname, behaviours=len(behs), steps=sum(x['steps'] for x in o), actions=dict(acts),
                          jobs=sum(x['jobs'] for x in o),
                          divergent=sum(1 for x in o if x['div']),
                          errors=sum(1 for x in o if x['error'])))
    return outs, stats


def sysrun(tier, seed, log=print):
    """Shared exploration, serialised by a lock so that concurrent checks wait for one run."""
    import fcntl
    os.makedirs(CACHE, exist_ok=True)
    with open(os.path.join(CACHE, 'lock_%s_%s' % (tier, seed)), 'w') as lk:
        fcntl.flock(lk, fcntl.LOCK_EX)
        return _sysrun(tier, seed, log)


def _sysrun(tier, seed, log=print):
    os.makedirs(CACHE, exist_ok=True)
    key = '%s_%s_%s' % (tier, seed, explore.tree_hash())
    path = os.path.join(CACHE, 'sys_%s.json' % key)
    if os.path.exists(path):
        log('sys exploration: using cached result for this tree (%s)' % os.path.basename(path))
        return json.load(open(path))
    for old in glob.glob(os.path.join(CACHE, 'sys_%s_%s_*.json' % (tier, seed))):
        os.unlink(old)
    t0 = time.time()
    scratch = explore.make_scratch('sys')
    rng = random.Random(seed)
    try:
        log('[1/5] TLC: model checking BertE.tla (%s)' % ', '.join(MC_CFGS[tier]))
        # the exhaustive configurations depend on the specification only, not on /repo: cached per spec hash
        import hashlib
        hh = hashlib.sha256()
        for f in ['BertE.tla'] + MC_CFGS[tier]:
            fp = os.path.join(tlc.SPEC_DIR, f)
            hh.update(open(fp, 'rb').read() if os.path.exists(fp) else b'-')
        mcpath = os.path.join(CACHE, 'mc_%s_%s.json' % (tier, hh.hexdigest()[:16]))
        if os.path.exists(mcpath):
            mc = json.load(open(mcpath))
            log('      (model checking results of this specification reused: %s)' % os.path.basename(mcpath))
        else:
            mc = run_mc(MC_CFGS[tier], scratch, 900 if tier == 'quick' else 3600)
            if all(m['ok'] or EXPECTED_LEADS.get(m['cfg']) == m['violated'] for m in mc):
                for old in glob.glob(os.path.join(CACHE, 'mc_%s_*.json' % tier)):
                    os.unlink(old)
                json.dump(mc, open(mcpath, 'w'))
        for m in mc:
            log('      %(cfg)s: %(distinct)d distinct states, depth %(depth)d, violated=%(violated)s, %(wall_s)ss' % m)
        log('[2/5] TLC -simulate -> replay of specification behaviours on the real code')
        spill = Spill(scratch)
        sim_outs, sim_stats = run_sim(SIM_CFGS[tier], scratch, seed, sink=spill.add)
        for s in sim_stats:
            log('      %s' % {k: v for k, v in s.items() if k != 'actions'})
        log('[3/5] scripted families on the real code')
        scns = families.all_scenarios(seed, tier)
        if tier == 'quick':
            core = [x for x in scns if x.get('core')]
            scns = core + _sample([x for x in scns if not x.get('core')], rng, 72)
        fam_outs = []
        for i in range(0, len(scns), 200):          # in slices: each slice's streams leave the memory at once
            part = explore.run_scenarios(scns[i:i + 200], scratch)
            for sc, o in zip(scns[i:i + 200], part):
                o['id'] = sc['id']
            spill.add(part)
            fam_outs += part
        log('      %d scenarios, %d with harness errors' % (len(fam_outs), sum(1 for o in fam_outs if o['error'])))
        log('[4/5] fault / third-party enumeration on the real code')
        bases = fault_bases(tier)
        base_outs = explore.run_scenarios(bases, scratch)
        variants = []
        for b, o in zip(bases, base_outs):
            o['id'] = b['id']
            variants += make_variants(b, o, rng, tier)
        nvar_all = len(variants)
        if tier == 'quick':
            variants = [v for v in variants if v.get('core')] + \
                _sample([v for v in variants if not v.get('core')], rng, 84, key=lambda v: v['fault']['kind'])
        spill.add(base_outs)
        var_outs = []
        for i in range(0, len(variants), 200):
            part = explore.run_scenarios(variants[i:i + 200], scratch)
            for v, o in zip(variants[i:i + 200], part):
                o['fault'] = v['fault']
                o['id'] = v['id']
            spill.add(part)
            var_outs += part
        log('      %d base jobs histories, %d variants (of %d enumerated)' % (len(bases), len(variants), nvar_all))
        log('[5/5] TLC: TraceMon.tla judges every recorded observation stream')
        allouts = spill.outs
        viol, lines, errs = explore.validate_files(spill.paths, scratch)
        byid = {o['tid']: o for o in allouts}
        recs = spill.lines({(t, k) for (t, k, _) in viol})
        vout = []
        for (t, k, clause) in viol:
            o = byid[t]
            vout.append(dict(clause=clause, scenario=o['id'], k=k, sig=_sig(clause, o, recs.get((t, k))), tid=t))
        res = dict(
            tier=tier, seed=seed, key=key, wall_s=round(time.time() - t0, 1),
            mc=mc, sim=sim_stats,
            divergences=[dict(scenario=o['id'], div=o['div'][:2], labels=o['labels'][-8:])
                         for o in sim_outs if o['div']][:20],
            counts=dict(scenarios=len(fam_outs), bases=len(base_outs), variants=len(var_outs),
                        variants_enumerated=nvar_all, behaviours=len(sim_outs),
                        lines=lines, jobs=spill.jobs,
                        errors=sum(1 for o in allouts if o['error'])),
            statuses=spill.statuses.most_common(),
            families=collections.Counter(o['id'].split('/')[0].split('|')[0] for o in allouts).most_common(),
            harness_errors=[dict(scenario=o['id'], error=o['error'][-800:]) for o in allouts if o['error']][:10],
            monitor_errors=errs[:3],
            violations=vout,
            samples=[dict(scenario=o['id'], history=o.get('hist', []))
                     for o in (fam_outs[:2] + var_outs[:2] + sim_outs[:2])],
        )
        # keep the scenarios of violations for replay
        rdir = os.path.join(VERIF, 'replays')
        os.makedirs(rdir, exist_ok=True)
        scn_by_id = {s['id']: s for s in scns + bases + variants}
        written = set()
        for v in vout:
            h = hashlib.sha1((v['scenario'] + v['clause']).encode()).hexdigest()[:12]
            v['replay'] = os.path.join(rdir, '%s_%s.json' % (v['clause'].split('.')[0], h))
            o = byid[v['tid']]
            if v['replay'] in written:
                continue
            written.add(v['replay'])
            with open(v['replay'], 'w') as f:
                json.dump(dict(clause=v['clause'], k=v['k'], scenario=scn_by_id.get(v['scenario']),
                               labels=o.get('labels'), seed=seed, tier=tier,
                               line=recs.get((v['tid'], v['k']))), f, indent=1)
        with open(path, 'w') as f:
            json.dump(res, f)
        return res
    finally:
        shutil.rmtree(scratch, ignore_errors=True)


def _sample(items, rng, n, key=None):
    if len(items) <= n:
        return items
    if key is None:
        key = lambda s: s['id'].split('/')[0]
    groups = collections.OrderedDict()
    for it in items:
        groups.setdefault(key(it), []).append(it)
    out = []
    per = max(1, n // len(groups))
    for g in groups.values():
        rng.shuffle(g)
        out += g[:per]
    rest = [it for g in groups.values() for it in g[per:]]
    rng.shuffle(rest)
    out += rest[:max(0, n - len(out))]
    return out


def _sig(clause, o, rec):
    """Signature of a violation: what a known finding is keyed on."""
    sig = dict(clause=clause, scenario=o['id'], family=o['id'].split('/')[0].split('|')[0])
    if rec:
        sig['job'] = rec['job']['kind']
        sig['status'] = rec['job'].get('status', '')
        cmd = (rec.get('op') or {}).get('cmd', '')
        sig['op'] = ('pushall-prune' if '--all' in cmd and '--prune' in cmd else
                     'pushall' if '--all' in cmd else 'push' if cmd else (rec.get('op') or {}).get('kind', ''))
        sig['mode'] = ('queue' if rec['cfg']['use_queue'] else 'noqueue') + ('+skip' if rec['cfg']['skip'] else '')
    parts = o['id'].split('/')
    if parts[0] == 'hold' and len(parts) >= 5:
        sig['hold'], sig['pos'] = parts[3], parts[4]
    f = o.get('fault')
    if f:
        sig['fault'] = f['kind']
        if f['kind'] == 'third':
            sig['third'] = f['third']['act']
    return sig


# design-level counterexamples that are known findings (deviation switch on = the code's behaviour)
EXPECTED_LEADS = {'BertE.fp.cfg': 'C08_Foreign', 'BertE.fr.cfg': 'C08_Foreign', 'BertE.wq.cfg': 'C12_Held'}

# ----------------------------------------------------------------------------- per property
CLAUSES = {p: p + '.' for p in SYS_PROPS}
MC_PROPS = {   # design-level statements checked on S (names in BertE.tla)
    'C01': ['C01_Incl'], 'C02': ['C02_AllOrNone'], 'C03': ['C03_Green', 'C05_Select'],
    'C08': ['C08_FF', 'C08_Foreign'], 'C12': ['C12_Held'], 'C19': ['C19_Children'],
    'C06': ['C06_Gate'], 'C04': ['C04_Gate'], 'C10': ['C10_CmdConsumed', 'C10_Converge'], 'C15': ['C15_ManualKept', 'C15_OwnOnly', 'C15_LossyRefuses'],
    'C20': ['C20_EntryFate', 'C20_DestDel'],
}


def check(prop, tier, seed):
    t0 = time.time()
    res = sysrun(tier, seed)
    if res['monitor_errors']:
        print('MACHINERY FAILURE: TraceMon rejected a stream:\n' + res['monitor_errors'][0][-1500:])
        return 2
    mine = [v for v in res['violations'] if v['clause'].startswith(prop + '.')]
    for m in res['mc']:
        if not m['ok'] and EXPECTED_LEADS.get(m['cfg']) == m['violated']:
            print('MODEL-LEAD (expected): %s violates %s - the modelled code behaviour behind a known finding; the same '
                  'configuration with the deviation switched off satisfies it' % (m['cfg'], m['violated']))
        elif not m['ok']:
            # a counterexample in the design model is a lead, not a verdict (DESIGN.md section 5)
            print('MODEL-LEAD: TLC reports %s on %s (design level; verdicts come from real executions)'
                  % (m['violated'] or 'an error', m['cfg']))
            if m['violated'] is None:
                print(m['tail'])
    if res['divergences']:
        print('DIVERGENCE: %d specification behaviours were not followed by the code (conformance, not a verdict)'
              % len(res['divergences']))
        print('  first: ' + json.dumps(res['divergences'][0])[:700])
    if res['counts']['errors']:
        print('note: %d scenarios ended with a harness error (first: %s)' %
              (res['counts']['errors'], res['harness_errors'][0]['scenario'] if res['harness_errors'] else '?'))
    new = evidence.report(prop, mine, os.path.join(VERIF, 'replays'))
    states = sum(m['distinct'] for m in res['mc'])
    trans = sum(m['states'] for m in res['mc'])
    ntr = res['counts']['scenarios'] + res['counts']['bases'] + res['counts']['variants'] + \
        res['counts']['behaviours']
    cov = dict(
        states=max(states, 1), transitions=max(trans, 1), traces_validated_against_impl=ntr,
        samples=res['samples'],
        evaluations=res['counts']['jobs'], distinct_nontrivial=len(res['statuses']),
        rule='real Bert-E jobs executed on real git repositories (mock git host); distinct = job outcome classes reached',
        model_checking=res['mc'], simulation_replay=res['sim'],
        conformance_divergences=len(res['divergences']),
        observation_lines_judged_by_TraceMon=res['counts']['lines'],
        job_outcomes=res['statuses'], scenario_families=res['families'],
        fault_variants=dict(run=res['counts']['variants'], enumerated=res['counts']['variants_enumerated']),
        clauses_of_this_property=[c for c in ALL_CLAUSES if c.startswith(prop + '.')],
        design_level_properties=MC_PROPS.get(prop, []),
        violations_of_this_property=len(mine), known_findings_matched=len(mine) - new,
        exhaustive=False, shared_exploration_wall_s=res['wall_s'],
    )
    level = 'fault_enumeration' if prop == 'C02' else 'model_checking'
    evidence.write(prop, tier, seed, level, cov,
                   ['git 2.39 and the in-tree mock git host stand in for the real host',
                    'harness name parser and option reader (harness/world.py) are trusted',
                    'TLC bounded: see model_checking[].depth; real histories are a finite sample chosen by the model, the families and the seed'],
                   time.time() - t0, new)
    return 1 if new else 0


ALL_CLAUSES = ['C05.system', 'C01.incl', 'C02.incl', 'C02.allornone', 'C02.recovery', 'C03.green', 'C06.gate', 'C08.ff',
               'C08.foreign', 'C08.destdel', 'C08.noloss', 'C10.norepeat', 'C10.converge',
               'C10.cmdonce', 'C10.fresh', 'C12.held.integrated', 'C12.held.merged',
               'C12.held.merged_after_queued', 'C12.nocomment', 'C12.lifted', 'C15.refuse.untouched',
               'C15.lossy.notrefused', 'C15.scope', 'C15.rebuild', 'C19.unique', 'C19.child',
               'C19.decline.prs', 'C19.decline.refs', 'C19.decline.leftover', 'C19.merge.refs', 'C19.events', 'C20.refuse.untouched',
               'C20.create', 'C20.delete', 'C20.delete.overrefuse', 'C20.queues.scope', 'C20.rebuild.resubmit']
