"""Self-test of the machinery (`bin/check selftest`): the binding between specification and code must be able
to FAIL for the right reason.

  1. TraceMon: a valid real trace is accepted; the same trace with one recorded field corrupted (a destination
     tip moved backwards) or with a build status flipped is rejected by the expected clauses.
  2. Spec -> code replay: a specification behaviour replays without divergence; the same behaviour with one
     expected atom removed from the projection is reported as a divergence.
  3. TraceServer: a valid real schedule is accepted; with one `get` event dropped, or a `put` turned into a `drop`,
     conformance divergences (and the lost-event clause) are reported.
  4. TraceCache: a valid real sequence is accepted; a corrupted poll answer is rejected.
Exit 0 when every expectation holds.
"""
import copy
import json
import os
import shutil
import sys

from . import explore, tlc, specgen
from .families import world, open_pr, approve


def main():
    scratch = explore.make_scratch('selftest')
    ok = True

    def expect(name, cond, detail=''):
        nonlocal ok
        print('%-78s %s %s' % (name, 'ok' if cond else 'FAILED', detail if not cond else ''))
        ok = ok and cond
    try:
        # ---- 1. TraceMon
        scn = dict(id='selftest', world=world('B3', 'queue'),
                   steps=[open_pr(1, 'development/4.3'), {"a": "gate", "p": 1}, {"a": "finish_queue"}])
        outs = explore.run_scenarios([scn], scratch, procs=1)
        tr = outs[0]['trace']
        expect('real happy-path trace recorded', outs[0]['error'] is None and len(tr) > 20, str(outs[0]['error'])[-300:])

        def judge(trace, tag):
            p = os.path.join(scratch, tag + '.ndjson')
            with open(p, 'w') as f:
                for r in trace:
                    f.write(json.dumps(r) + '\n')
            v, n, _ = tlc.run_tracemon(p, scratch)
            return {c for (_, _, c) in v}
        expect('TraceMon accepts the valid trace', judge(tr, 'ok') == set())
        bad = copy.deepcopy(tr)
        for r in bad[-1]['refs']:
            if r['n'] == 'development/5.1':
                r['c'] = 2
        got = judge(bad, 'bad1')
        expect('corrupted destination tip is rejected (C08.ff, C01.incl, C02.*)',
               {'C08.ff', 'C01.incl'} <= got, str(got))
        bad = copy.deepcopy(tr)
        for r in bad:
            for b in r['builds']:
                b['s'] = 'FAILED'
        got = judge(bad, 'bad2')
        expect('flipped build statuses are rejected (C03.green, C06.gate)', {'C03.green', 'C06.gate'} <= got, str(got))
        # ---- 2. replay
        cfgp = os.path.join(tlc.SPEC_DIR, 'BertE.sim.cfg')
        cfg = specgen.parse_cfg(cfgp)
        behs, _ = specgen.simulate('BertE.sim.cfg', scratch, 3, 14, 5)
        beh = max(behs, key=len)
        o = specgen.replay_behaviour((cfg, beh, scratch, 1))
        expect('a specification behaviour replays on the code without divergence', not o['div'] and not o['error'],
               str(o['div'][:1]) + str(o['error'])[-300:])
        beh2 = copy.deepcopy(beh)
        hit = False
        for st in beh2:
            for r in st['refs']:
                if r['n'][0] == 'src' and len(r['atoms']) > 1 and not hit:
                    r['atoms'] = r['atoms'][:-1]
                    hit = True
        o2 = specgen.replay_behaviour((cfg, beh2, scratch, 2))
        expect('a corrupted specification projection is reported as a divergence', hit and bool(o2['div']))
        # ---- 3. TraceServer
        from .checks import c13
        res = c13._explore_worker(({'h1': ['a'], 'h2': ['a']}, 0, 0, 3, 0))
        evs = res['traces'][0]

        def judge_srv(events, tag):
            p = os.path.join(scratch, tag + '.ndjson')
            with open(p, 'w') as f:
                for e in events:
                    f.write(json.dumps(e) + '\n')
            return c13._validate((p, scratch))
        r = judge_srv(evs, 'srv_ok')
        expect('TraceServer accepts a real schedule', r['err'] is None and not r['viol'] and not r['div'], str(r)[:300])
        drop = [e for e in evs]
        gi = next(i for i, e in enumerate(drop) if e['ev'] == 'get')
        del drop[gi]
        r = judge_srv(drop, 'srv_drop')
        expect('a dropped `get` event is rejected (conformance + lost event)', bool(r['div']) and
               any(v[2] == 'C13.lost_event' for v in r['viol']), str(r)[:300])
        mut = copy.deepcopy(evs)
        pi = next(i for i, e in enumerate(mut) if e['ev'] == 'put')
        mut[pi]['ev'] = 'drop'
        r = judge_srv(mut, 'srv_mut')
        expect('a `put` recorded as `drop` is rejected (drop where the model puts)',
               any('drop where the model puts' in d[2] for d in r['div']), str(r)[:300])
        # ---- 4. TraceCache
        from .checks import c17
        seq = [('hostset', 'c1', 'k1', 'SUCCESSFUL'), ('poll', 'c1', 'k1', ''), ('hostset', 'c1', 'k1', 'FAILED'),
               ('poll', 'c1', 'k1', '')]
        evs = c17._cache_worker(([tuple(seq)], 2, 0))
        p = os.path.join(scratch, 'cache_ok.ndjson')
        open(p, 'w').write('\n'.join(json.dumps(e) for e in evs) + '\n')
        r = c17._cache_validate((p, scratch, 2))
        expect('TraceCache accepts a real sequence (green kept after the host turned red)',
               r['err'] is None and not r['viol'] and evs[-1]['s'] == 'SUCCESSFUL', str(r)[:300] + str(evs[-1]))
        evs[-1]['s'] = 'FAILED'
        open(p, 'w').write('\n'.join(json.dumps(e) for e in evs) + '\n')
        r = c17._cache_validate((p, scratch, 2))
        expect('a downgraded answer is rejected (C17.green_downgraded)',
               any(v[2] == 'C17.green_downgraded' for v in r['viol']), str(r)[:300])
    finally:
        shutil.rmtree(scratch, ignore_errors=True)
    print('SELFTEST ' + ('PASSED' if ok else 'FAILED'))
    return 0 if ok else 1


if __name__ == '__main__':
    sys.exit(main())
