"""Command line of the checks: `bin/check Cxx [--tier quick|thorough] [--seed N] [--replay path]`."""
import argparse
import importlib
import os
import sys
import traceback

SYS = ['C01', 'C02', 'C03', 'C06', 'C08', 'C10', 'C12', 'C15', 'C19', 'C20']
MODULES = {}   # property -> module under harness.checks with a check(tier, seed) function


def main():
    ap = argparse.ArgumentParser()
    ap.add_argument('prop')
    ap.add_argument('--tier', default=os.environ.get('VERIF_TIER', 'quick'))
    ap.add_argument('--seed', type=int, default=int(os.environ.get('VERIF_SEED', '1') or 1))
    ap.add_argument('--replay')
    a = ap.parse_args()
    if a.tier not in ('quick', 'thorough'):
        a.tier = 'quick'
    try:
        if a.prop == 'selftest':
            from . import selftest
            return selftest.main()
        if a.replay:
            from . import replay
            return replay.main(a.prop, a.replay)
        mod = None
        try:
            mod = importlib.import_module('harness.checks.' + a.prop.lower())
        except ModuleNotFoundError as e:
            if 'harness.checks' not in str(e):
                raise
        if mod is not None:
            return mod.check(a.tier, a.seed)
        if a.prop in SYS:
            from . import syscheck
            return syscheck.check(a.prop, a.tier, a.seed)
        print('no check for ' + a.prop)
        return 2
    except Exception:
        traceback.print_exc()
        print('MACHINERY FAILURE (exit 2)')
        return 2


if __name__ == '__main__':
    sys.exit(main())
