"""Execution of abstract histories (the action alphabet of spec/BertE.tla) on the real code.

A scenario is a dict:
  {"id": str, "world": {"branches": [...], "tags": {...}, "hotfix": [...], "settings": {...},
                         "opts": [...]},
   "steps": [ {"a": <action>, ...}, ... ]}
The same vocabulary is produced by the scripted families (harness/families.py), by the seeded random
driver and by the TLC-generated behaviours of BertE.tla (harness/specgen.py).
"""
import json
import os
import shutil
import sys
import traceback

from .world import World, ROBOT, CONTRIB, ADMIN, PEER1, PEER2, classify, sh  # noqa
from . import scripts


def resolve_ref(w, step):
    """Name of the ref a step talks about: explicit 'ref', or symbolic forms."""
    ref = step.get('ref')
    if ref is None:
        return None
    if ref.startswith('src:'):
        return w.pr(int(ref[4:])).src_branch
    if ref.startswith('w:'):            # w:<pr>:<version>
        _, p, v = ref.split(':')
        return 'w/%s/%s' % (v, w.pr(int(p)).src_branch)
    if ref.startswith('qw:'):           # qw:<pr>:<version>
        _, p, v = ref.split(':')
        return 'q/w/%s/%s/%s' % (p, v, w.pr(int(p)).src_branch)
    return ref


def integ_refs(w, p):
    src = w.pr(p).src_branch
    out = [src]
    for n in w.refs():
        d = classify(n)
        if d['kind'] == 'w' and d['src'] == src:
            out.append(n)
    return out


MACROS = dict(hold_script=scripts.hold_script, foreign_script=scripts.foreign_script,
              reset_script=scripts.reset_script, admin_script=scripts.admin_script,
              events_script=scripts.events_script, repeat_script=scripts.repeat_script,
              conflict_script=scripts.conflict_script)


def run_step(w, st, res):
    a = st['a']
    if a in MACROS:
        return MACROS[a](w, st, res)
    if a == 'gate':
        return scripts.gate(w, st['p'], res)
    if a == 'gate2':
        return scripts.gate(w, 2, res) if 2 in w.pmap and w.pr(w.pmap[2]).status == 'OPEN' else None
    if a == 'finish_queue':
        return scripts.finish_queue(w, res)
    if a == 'rand_queue_status':
        return scripts.rand_queue_status(w, st['seed'], st['sts'])
    if a == 'comment_after':
        w.comment(w.pmap[st['p']], CONTRIB, '@robot after_pull_request=%d' % w.pmap[st['dep']])
        return None
    if a == 'decline_open':
        for sym, rid in sorted(w.pmap.items()):
            if w.pr(rid).status == 'OPEN':
                w.decline(rid)
        return None
    if a == 'recover':
        return recover(w, st, res)
    if a == 'fresh_compare':
        return fresh_compare(w, st, res)
    if a == 'event_equiv':
        return event_equiv(w, st, res)
    if a == 'final_check':
        if st.get('expect') is not None:
            w.observe('check', chk=dict(kind='final', dt=dest_trees(w), ref=st['expect']))
        return None
    if 'p' in st and a != 'open_pr':
        st = dict(st, p=w.pmap.get(st['p'], st['p']))
    if isinstance(st.get('third'), dict) and 'p' in st['third']:
        st = dict(st, third=dict(st['third'], p=w.pmap.get(st['third']['p'], st['third']['p'])))
    if 'fail_cmd' in st:
        # a branch pushed by somebody else BETWEEN two jobs, then a read-side git command of the job fails
        if st['fail_cmd'].get('third_before'):
            w.sync_mirror()
            w.third_create_branch('feature/third-party')
            w.observe('env', act=dict(a='third', act='create_branch_between_jobs'))
        w.fail_cmd = dict(match=st['fail_cmd']['match'], nth=st['fail_cmd'].get('nth', 0))
    if 'crash_at' in st:
        w.crash_at = st['crash_at']
    if 'reject' in st:
        w.reject_refs(st['reject'])
    if 'third' in st:
        t = st['third']

        def hook(t=t):
            if t['act'] == 'create_branch':
                w.third_create_branch(t.get('name', 'feature/third-party'))
            elif t['act'] == 'push_src':
                w.third_push(w.pr(t['p']).src_branch)
            elif t['act'] == 'force_src':
                w.third_force(w.pr(t['p']).src_branch)
            elif t['act'] == 'rewind_src':
                w.third_rewind(w.pr(t['p']).src_branch)
        w.before_push = {t['at']: hook}
    try:
        if a == 'open_pr':
            rid = w.open_pr(st['src'], st['dst'], user=st.get('u', CONTRIB), file=st.get('file'),
                            base=st.get('base'), existing=st.get('existing', False))
            w.pmap[len(w.pmap) + 1] = rid
            return rid
        if a == 'push_src':
            return w.push_src(st['p'], file=st.get('file'))
        if a == 'amend_src':
            return w.amend_src(st['p'])
        if a == 'rebase_src':
            return w.rebase_src(st['p'])
        if a == 'reset_src':
            return w.reset_src(st['p'])
        if a == 'manual_commit':
            wname = 'w/%s/%s' % (st['v'], w.pr(st['p']).src_branch)
            if w.tip(wname) is None:
                return 'skipped'
            return w.manual_commit(st['p'], wname, merge=st.get('merge', False))
        if a == 'approve':
            return w.approve(st['p'], st['u'])
        if a == 'unapprove':
            return w.unapprove(st['p'], st['u'])
        if a == 'request_changes':
            return w.request_changes(st['p'], st['u'])
        if a == 'comment':
            w.comment(st['p'], st['u'], st['text'])
            return None
        if a == 'del_comment':
            return w.delete_comment(st['p'], st['text'])
        if a == 'decline':
            return w.decline(st['p'])
        if a == 'push_tag':
            return w.push_tag(st['tag'], st['branch'])
        if a == 'report':
            name = resolve_ref(w, st)
            sha = None
            if name is not None:
                sha = w.tip(name)
            elif 'c' in st:
                sha = w.sha.get(st['c'])
            if sha is None:
                return 'skipped'
            return w.report(sha, st['status'])
        if a == 'report_pr':       # every integration tip of p
            for n in integ_refs(w, st['p']):
                if w.tip(n):
                    w.report(w.tip(n), st['status'])
            return None
        if a == 'report_queue':    # every q/* and q/w/* tip (optionally only some versions)
            only = st.get('only')
            for n, sha in sorted(w.refs().items()):
                d = classify(n)
                if d['kind'] in ('q', 'qw') and (only is None or _vs(d) in only):
                    if d['kind'] == 'qw' and 'p' in st and d['pr'] != st['p']:
                        continue
                    w.report(sha, st['status'])
            return None
        if a == 'eval_pr':
            r = w.eval_pr(st['p'])
            res.append(dict(step=a, p=st['p'], status=r['status'], nops=len(r['ops'])))
            return r
        if a == 'eval_child':
            # evaluation delivered as an event on the integration pull request of p for version v
            src = w.pr(st['p']).src_branch
            for it in w.mock.PullRequest.items:
                if it.source['branch']['name'] == 'w/%s/%s' % (st['v'], src) and \
                        it.author['username'].lower() == ROBOT and it._state == 'OPEN':
                    r = w.eval_pr(it.id)
                    res.append(dict(step=a, p=st['p'], status=r['status'], nops=len(r['ops'])))
                    return r
            return 'skipped'
        if a == 'eval_commit':
            name = resolve_ref(w, st)
            sha = w.tip(name) if name else w.sha.get(st.get('c'))
            if sha is None:
                return 'skipped'
            r = w.eval_commit(sha)
            res.append(dict(step=a, ref=name, status=r['status'], nops=len(r['ops'])))
            return r
        if a == 'api':
            kw = {k: v for k, v in st.items() if k in ('branch', 'branch_from')}
            r = w.api_job(st['kind'], **kw)
            res.append(dict(step=a, kind=st['kind'], status=r['status'], nops=len(r['ops']),
                            pending=r['pending']))
            return r
        if a == 'drain':
            r = w.drain()
            res.append(dict(step=a, status=r))
            return r
        if a == 'fresh':
            w.fresh_berte()
            return None
        if a == 'third':
            t = st
            if t['act'] == 'create_branch':
                w.third_create_branch(t.get('name', 'feature/third-party'))
            elif t['act'] == 'push_src':
                w.third_push(w.pr(t['p']).src_branch)
            elif t['act'] == 'force_src':
                w.third_force(w.pr(t['p']).src_branch)
            w.observe('env', act=dict(a='third', act=t['act']))
            return None
        raise ValueError('unknown step %r' % (st,))
    finally:
        w.crash_at = None
        w.before_push = {}
        if 'reject' in st:
            w.reject_refs([])


def dest_trees(w):
    out = []
    for n in sorted(w.refs()):
        if classify(n)['kind'] in ('development', 'stabilization', 'hotfix'):
            out.append([n, sh('git rev-parse %s^{tree}' % n, w.bare).strip()[:12]])
    return out


def recover(w, st, res):
    """C02: after an interrupted job, re-deliver the event to a fresh Bert-E (after the documented
    queue reset if it reports the queues out of order) and compare the destinations' content with
    the uninterrupted run."""
    w.fresh_berte()
    sub = []
    r = run_step(w, dict(st['step']), sub)
    status = r['status'] if isinstance(r, dict) else None
    reset = status in ('QueueOutOfOrder', 'IncoherentQueues')
    if reset:
        w.api_job('RebuildQueues')
        w.drain()
        r = run_step(w, dict(st['step']), sub)
        status = r['status'] if isinstance(r, dict) else None
    res.append(dict(step='recover', status=status))
    # The re-delivered event is one more evaluation than the uninterrupted run had at this point and
    # may legitimately be ahead of it (e.g. it evaluates the queue and merges an earlier pull request
    # whose queue build is already green).  "Ends with the same content" is therefore judged at the
    # end of the history (final_check), where both runs have delivered every event.
    return r


def event_equiv(w, st, res):
    """C19: an event on an integration pull request, or a commit event on a source / w/ tip, is handled as
    an event on the parent pull request: the variant is evaluated in a fresh OS process on a copy of the
    world, the parent event on the long-lived instance; outcomes and effects must be equal."""
    rid = w.pmap.get(st['p'], st['p'])
    src = w.pr(rid).src_branch
    variant = None
    if st['via'] == 'child':
        kids = [it.id for it in w.mock.PullRequest.items
                if it.author['username'].lower() == ROBOT and it._state == 'OPEN' and
                it.source['branch']['name'].endswith('/' + src) and it.source['branch']['name'].startswith('w/')]
        if kids:
            variant = dict(kind='EvalPR', arg=kids[-1])
    else:
        names = [n for n in sorted(w.refs()) if n == src or (classify(n)['kind'] == 'w' and classify(n)['src'] == src)]
        if st['via'] == 'w_commit':
            names = [n for n in names if n != src]
        # only tips that identify this pull request alone
        if names:
            sha = w.tip(names[-1] if st['via'] == 'w_commit' else src)
            owners = [it.id for it in w.mock.PullRequest.items if it.source['branch']['name'] == src and
                      it.state == 'OPEN']
            if sha and owners and min(owners) == rid and \
                    len([n for n, s_ in w.refs().items() if s_ == sha and classify(n)['kind'] in ('q', 'qw')]) == 0 and \
                    len({classify(n)['src'] or n for n, s_ in w.refs().items() if s_ == sha}) == 1:
                variant = dict(kind='EvalCommit', arg=sha)
    if variant is None:
        return None
    return fresh_compare(w, dict(p=st['p'], job=variant, kind='events'), res)


def fresh_compare(w, st, res):
    """C10(d): evaluate pull request p in a fresh OS process on a copy of the world, then on the
    long-lived instance; both outcomes and effects go to the monitor (check kind `fresh`)."""
    import subprocess
    from . import freshproc
    rid = w.pmap.get(st['p'], st['p'])
    path = os.path.join(w.scratch, 'snap_%d.pickle' % w.k)
    w.export_snapshot(path, st.get('job') or dict(kind='EvalPR', arg=rid))
    env = dict(os.environ, PYTHONPATH=os.path.dirname(os.path.dirname(os.path.abspath(__file__))))
    p = subprocess.run([sys.executable, '-W', 'ignore', '-m', 'harness.freshproc', path], stdout=subprocess.PIPE,
                       stderr=subprocess.PIPE, universal_newlines=True, env=env,
                       cwd=os.path.dirname(os.path.dirname(os.path.abspath(__file__))))
    os.environ['HOME'] = w.home
    os.environ['TMPDIR'] = w.scratch
    line = [l for l in p.stdout.splitlines() if l.startswith('FRESHRESULT ')]
    if not line:
        raise RuntimeError('fresh process failed:\n' + p.stdout[-1500:] + p.stderr[-2500:])
    fresh = json.loads(line[0][len('FRESHRESULT '):])
    r = w.eval_pr(rid)
    res.append(dict(step='eval_pr', p=st['p'], status=r['status']))
    mine = dict(status=r['status'], effects=freshproc.effects(w, None))
    same = fresh == mine
    w.observe('check', chk=dict(kind=st.get('kind', 'fresh'), dt=[[json.dumps(mine, sort_keys=True)]] if not same else [],
                                ref=[[json.dumps(fresh, sort_keys=True)]] if not same else []))
    shutil.rmtree(os.path.join(w.scratch, 'bare_' + os.path.basename(path)), ignore_errors=True)
    os.unlink(path)
    return r


def _vs(d):
    return '.'.join(str(x) for x in d['ver'] if x != -1)


def run_scenario(scn, scratch, tid=0, keep=False):
    """Run one scenario in a fresh World under scratch/<id>. Returns dict(trace, results, error)."""
    d = os.path.join(scratch, 'scn_%s' % tid)
    shutil.rmtree(d, ignore_errors=True)
    wc = scn['world']
    out = dict(id=scn.get('id', str(tid)), tid=tid, trace=[], results=[], error=None)
    w = None
    try:
        w = World(d, wc['branches'], tags=wc.get('tags'), hotfix=wc.get('hotfix'),
                  settings=wc.get('settings'), cmd_line_options=wc.get('opts'), flat=wc.get('flat', False))
        w.tid = tid
        w.observe('init')
        out['dtrees'] = []
        for st in scn['steps']:
            r = run_step(w, st, out['results'])
            # the operator's part of the recovery contract: whenever Bert-E reports the queues out of order
            # after a fault, the documented queue reset is applied and the event delivered again
            if scn.get('fault') and st['a'] in ('eval_pr', 'eval_commit', 'eval_child') and isinstance(r, dict) \
                    and r.get('status') in ('QueueOutOfOrder', 'IncoherentQueues') and 'crash_at' not in st \
                    and 'fail_cmd' not in st \
                    and 'reject' not in st and 'third' not in st:
                w.api_job('RebuildQueues')
                w.drain()
                run_step(w, st, out['results'])
            if st['a'] in ('eval_pr', 'eval_commit', 'api', 'eval_child'):
                out['dtrees'].append(dest_trees(w))
    except Exception:
        out['error'] = traceback.format_exc()
    finally:
        if w is not None:
            out['trace'] = w.trace
            w.close()
        if not keep:
            shutil.rmtree(d, ignore_errors=True)
    return out


if __name__ == '__main__':
    scn = json.load(open(sys.argv[1]))
    r = run_scenario(scn, sys.argv[2], keep=True)
    print(json.dumps(r['results'], indent=1))
    if r['error']:
        print(r['error'])
