"""World-aware macro steps used by the scripted families (harness/families.py)."""
import random

from .world import CONTRIB, ADMIN, PEER1, PEER2, ROBOT, classify


def P(w, p):
    return w.pmap.get(p, p)


def approve(w, p):
    w.approve(P(w, p), CONTRIB)
    w.approve(P(w, p), PEER1)


def report_pr(w, p, status):
    src = w.pr(P(w, p)).src_branch
    for n, sha in sorted(w.refs().items()):
        d = classify(n)
        if n == src or (d['kind'] == 'w' and d['src'] == src):
            w.report(sha, status)


def report_queue(w, status, p=None):
    for n, sha in sorted(w.refs().items()):
        d = classify(n)
        if d['kind'] == 'q' or (d['kind'] == 'qw' and (p is None or d['pr'] == P(w, p))):
            w.report(sha, status)


def gate(w, p, res):
    """Drive an open PR through approval and a green build to the queue / a direct merge."""
    r = ev(w, p, res)
    approve(w, p)
    r = ev(w, p, res)
    report_pr(w, p, 'SUCCESSFUL')
    r = ev(w, p, res)
    if r['status'] == 'BuildNotStarted':       # integration tips changed: report again
        report_pr(w, p, 'SUCCESSFUL')
        r = ev(w, p, res)
    return r


def ev(w, p, res):
    r = w.eval_pr(P(w, p))
    res.append(dict(step='eval_pr', p=p, status=r['status'], nops=len(r['ops'])))
    return r


def q_tip(w):
    qs = [(n, s) for n, s in sorted(w.refs().items()) if classify(n)['kind'] == 'q']
    return qs[-1] if qs else None


def finish_queue(w, res, status='SUCCESSFUL'):
    if not q_tip(w):
        return None
    report_queue(w, status)
    n, sha = q_tip(w)
    r = w.eval_commit(sha)
    res.append(dict(step='eval_commit', ref=n, status=r['status'], nops=len(r['ops'])))
    return r


def rand_queue_status(w, seed, sts):
    rng = random.Random(seed)
    tips = [(n, s) for n, s in sorted(w.refs().items()) if classify(n)['kind'] == 'qw']
    rng.shuffle(tips)
    for n, s in tips:
        w.report(s, rng.choice(sts))
    for n, s in tips[:2]:
        if rng.random() < 0.3:
            w.report(s, rng.choice(sts))


# --------------------------------------------------------------------------------------------
def hold_script(w, st, res):
    """C12: PR 1 fully approved and green, with a hold placed at `pos`, then lifted."""
    hold, pos, dst = st['hold'], st['pos'], st['dst']
    dep_ids = []

    def place():
        if hold == 'wait':
            w.comment(P(w, 1), CONTRIB, '@robot wait')
        elif hold == 'declined':
            w.decline(P(w, 1))
        elif hold == 'after_nonnum':
            w.comment(P(w, 1), CONTRIB, '@robot after_pull_request=abc')
        elif hold == 'after_unknown':
            w.comment(P(w, 1), CONTRIB, '@robot after_pull_request=99')
        else:
            # the dependency is PR 2
            if 2 not in w.pmap:
                w.pmap[2] = w.open_pr('bugfix/TEST-2', st['dst2'])
            if hold == 'after_declined':
                w.decline(P(w, 2))
            if hold == 'after_merged':
                gate(w, 2, res)
                finish_queue(w, res)
            if hold == 'after_two':
                w.pmap[3] = w.open_pr('bugfix/TEST-3', st['dst2'])
                w.comment(P(w, 1), CONTRIB, '@robot after_pull_request=%d' % P(w, 3))
                dep_ids.append(3)
            w.comment(P(w, 1), CONTRIB, '@robot after_pull_request=%d' % P(w, 2))
            dep_ids.append(2)

    w.pmap[1] = w.open_pr('bugfix/TEST-1', dst)
    if pos == 'at_open':
        place()
    ev(w, 1, res)
    approve(w, 1)
    ev(w, 1, res)
    if pos == 'after_integration':
        place()
        ev(w, 1, res)
    report_pr(w, 1, 'SUCCESSFUL')
    if pos == 'after_green':
        place()
    ev(w, 1, res)
    if pos == 'after_queued':
        place()
    ev(w, 1, res)
    finish_queue(w, res)
    ev(w, 1, res)
    # lift the hold
    if hold == 'wait':
        w.delete_comment(P(w, 1), '@robot wait')
    elif hold in ('after_open', 'after_two'):
        for d in dep_ids:
            if w.pr(P(w, d)).status == 'OPEN':
                gate(w, d, res)
                finish_queue(w, res)
                ev(w, 1, res)          # still held while another dependency is open
    elif hold in ('after_unknown', 'after_nonnum'):
        for t in ('@robot after_pull_request=99', '@robot after_pull_request=abc'):
            w.delete_comment(P(w, 1), t)
    ev(w, 1, res)
    report_pr(w, 1, 'SUCCESSFUL')
    ev(w, 1, res)
    finish_queue(w, res)
    ev(w, 1, res)


def foreign_script(w, st, res):
    """C12: a PR whose source or destination Bert-E does not handle: never a comment."""
    src, dst = st['src'], st['dst']
    if w.tip(dst) is None:
        w.third_create_branch(dst, frm=w.init_branches[0])
    rid = w.open_pr(src, dst, base=dst)
    w.pmap[1] = rid
    w.eval_pr(rid)
    approve(w, 1)
    w.eval_pr(rid)
    w.report(w.tip(src), 'SUCCESSFUL')
    w.eval_pr(rid)
    w.eval_commit(w.tip(src))


def reset_script(w, st, res):
    """C15: after integration branches exist, a random sequence of source rewrites, destination
    moves and manual commits; then reset / force_reset; then the next evaluation."""
    dst = st['dst']
    w.pmap[1] = w.open_pr('bugfix/TEST-1', dst)
    w.push_src(P(w, 1))
    w.pmap[2] = w.open_pr('bugfix/TEST-2', dst)      # a bystander PR with its own w/ branches
    ev(w, 1, res)
    ev(w, 2, res)
    approve(w, 1)
    wnames = [n for n in sorted(w.refs()) if classify(n)['kind'] == 'w' and
              classify(n)['src'] == 'bugfix/TEST-1']
    for a in st['seq']:
        if a == 'amend':
            w.amend_src(P(w, 1))
        elif a == 'rebase':
            w.rebase_src(P(w, 1))
        elif a == 'push':
            w.push_src(P(w, 1))
        elif a == 'reset_src':
            w.reset_src(P(w, 1))
        elif a in ('dst_move', 'dst_move_noeval'):     # _noeval: the integration branches are NOT updated afterwards
            n = len([k for k in w.pmap]) + 1
            w.pmap[n] = w.open_pr('bugfix/TEST-%d' % n, dst)
            gate(w, n, res)
            finish_queue(w, res)
        elif a == 'eval':
            ev(w, 1, res)
        elif a.startswith('manual') and wnames:
            wn = wnames[0] if a == 'manual_first' else wnames[-1]
            if w.tip(wn):
                w.manual_commit(P(w, 1), wn, merge=(a == 'manual_merge'))
                if a == 'manual2':
                    w.manual_commit(P(w, 1), wn)
        if a in ('amend', 'rebase', 'push', 'dst_move') and w.rng_eval.random() < 0.5:
            ev(w, 1, res)
    w.comment(P(w, 1), CONTRIB, '@robot %s' % st['cmd'])
    ev(w, 1, res)
    ev(w, 1, res)
    ev(w, 2, res)


def queue_prs(w, res, n, dst, hotfix=None, hotfix_n=1):
    """Queue n PRs (no merge). Returns symbolic ids."""
    ids = []
    for i in range(n):
        k = len(w.pmap) + 1
        d = hotfix if (hotfix and i < hotfix_n) else dst
        w.pmap[k] = w.open_pr('bugfix/TEST-%d' % k, d)
        gate(w, k, res)
        ids.append(k)
    return ids


def admin_script(w, st, res):
    kind = st['kind']
    dst = w.init_branches[0]
    hot = w.hotfix[0] if (st.get('hotfix_queue') and w.hotfix) else None
    if st['queued'] and w.settings.use_queue:
        queue_prs(w, res, st['queued'], dst, hotfix=hot, hotfix_n=st.get('hotfix_n', 1))
    kw = {}
    if kind in ('CreateBranch', 'DeleteBranch'):
        kw['branch'] = st['branch']
        if st.get('from'):
            frm = st['from']
            if frm == 'outside':         # a commit that is NOT in the latest development branch
                k = len(w.pmap) + 1
                w.pmap[k] = w.open_pr('bugfix/TEST-%d' % k, dst)
                frm = w.tip('bugfix/TEST-%d' % k)
            kw['branch_from'] = w.sha[1] if frm == 'init' else frm
    r = w.api_job(kind, **kw)
    res.append(dict(step='api', kind=kind, status=r['status'], pending=r['pending']))
    d = w.drain()
    res.append(dict(step='drain', status=d))
    # life goes on: one more PR through the whole cycle on the (possibly new) cascade
    k = len(w.pmap) + 1
    if w.tip(dst):
        w.pmap[k] = w.open_pr('bugfix/TEST-%d' % k, dst)
        gate(w, k, res)
        finish_queue(w, res)
        finish_queue(w, res)


def events_script(w, st, res):
    """C19/C10: deliver PR events, child PR events and commit events on every tip, in random order
    and multiplicity (each evaluation three times in a row), then decline or merge."""
    rng = random.Random(st['seed'])
    branches = w.init_branches
    for i in range(1, st['npr'] + 1):
        w.pmap[i] = w.open_pr('bugfix/TEST-%d' % i, rng.choice(branches[:2]))
    opts = ['@robot create_pull_requests', '@robot create_integration_branches']

    def deliver():
        p = rng.randrange(1, st['npr'] + 1)
        kind = rng.choice(['pr', 'pr', 'child', 'src_commit', 'w_commit', 'q_commit'])
        reps = 3 if rng.random() < 0.5 else 1
        for _ in range(reps):
            if kind == 'pr':
                ev(w, p, res)
            elif kind == 'child':
                kids = [it.id for it in w.mock.PullRequest.items
                        if it.author['username'].lower() == ROBOT and it._state == 'OPEN' and
                        ('#%d' % P(w, p)) in (it.description or '')]
                if kids:
                    r = w.eval_pr(rng.choice(kids))
                    res.append(dict(step='eval_child', p=p, status=r['status']))
            else:
                src = w.pr(P(w, p)).src_branch
                want = dict(src_commit='other', w_commit='w', q_commit='qw')[kind]
                tips = [s for n, s in sorted(w.refs().items())
                        if (n == src and want == 'other') or
                        (classify(n)['kind'] == want and classify(n)['src'] == src)]
                if tips:
                    r = w.eval_commit(rng.choice(tips))
                    res.append(dict(step='eval_commit', p=p, status=r['status']))

    from .scenario import event_equiv
    for rnd in range(rng.randrange(4, 9)):
        deliver()
        if rng.random() < 0.35:
            event_equiv(w, dict(p=rng.randrange(1, st['npr'] + 1),
                                via=rng.choice(['child', 'src_commit', 'w_commit'])), res)
        x = rng.random()
        p = rng.randrange(1, st['npr'] + 1)
        if x < 0.25:
            approve(w, p)
        elif x < 0.45:
            report_pr(w, p, rng.choice(['SUCCESSFUL', 'SUCCESSFUL', 'FAILED', 'INPROGRESS']))
        elif x < 0.55:
            w.comment(P(w, p), CONTRIB, rng.choice(opts))
        elif x < 0.65 and w.pr(P(w, p)).status == 'OPEN':
            w.push_src(P(w, p))
        elif x < 0.75:
            report_queue(w, rng.choice(['SUCCESSFUL', 'FAILED']))
    for p in range(1, st['npr'] + 1):
        if st['end'] == 'decline' and w.pr(P(w, p)).status == 'OPEN' and rng.random() < 0.7:
            w.decline(P(w, p))
            for _ in range(3):
                ev(w, p, res)
        elif w.pr(P(w, p)).status == 'OPEN':
            gate(w, p, res)
    finish_queue(w, res)
    finish_queue(w, res)
    for p in range(1, st['npr'] + 1):
        ev(w, p, res)


def repeat_script(w, st, res):
    """C10: states with blocked / dependent / queued / merged / declined pull requests and pending commands;
    every evaluation three times in a row; the same evaluation on a fresh OS process and on the long-lived
    instance (after it has processed other pull requests carrying options)."""
    from .scenario import fresh_compare
    rng = random.Random(st['seed'])
    branches = w.init_branches
    single = branches[-1]                      # a single-target destination (last development branch)
    w.pmap[1] = w.open_pr('bugfix/TEST-1', branches[0])
    w.pmap[2] = w.open_pr('bugfix/TEST-2', rng.choice(branches))
    w.pmap[3] = w.open_pr('bugfix/TEST-3', single)
    w.comment(P(w, 2), CONTRIB, '@robot after_pull_request=%d' % P(w, 1))
    if rng.random() < 0.5:
        w.comment(P(w, 3), CONTRIB, '@robot unanimity')
    typo = rng.random() < 0.5      # a mistyped option: every evaluation is blocked, but told only once

    def thrice(p):
        for _ in range(3):
            ev(w, p, res)

    def everyone():
        order = [1, 2, 3]
        rng.shuffle(order)
        for p in order:
            thrice(p)

    def compare_all():
        for p in (3, 1, 2):
            if w.pr(P(w, p)).status in ('OPEN', 'DECLINED'):
                fresh_compare(w, dict(p=p), res)

    everyone()
    compare_all()
    if typo:
        w.comment(P(w, 2), ADMIN, '@robot bypass_peer_aproval')
        thrice(2)
        w.delete_comment(P(w, 2), '@robot bypass_peer_aproval')
    approve(w, 1)
    approve(w, 3)
    everyone()
    report_pr(w, 1, 'SUCCESSFUL')
    report_pr(w, 3, rng.choice(['SUCCESSFUL', 'FAILED']))
    everyone()
    compare_all()
    # pending commands: help, then reset twice in a row on the single-target pull request
    w.comment(P(w, 3), CONTRIB, '@robot help')
    thrice(3)
    w.comment(P(w, 3), CONTRIB, '@robot reset')
    thrice(3)
    w.comment(P(w, 3), CONTRIB, '@robot reset')
    thrice(3)
    report_pr(w, 3, 'SUCCESSFUL')
    thrice(3)
    finish_queue(w, res)
    everyone()
    if rng.random() < 0.5:
        for p in (1, 2, 3):
            if w.pr(P(w, p)).status == 'OPEN' and rng.random() < 0.5:
                w.decline(P(w, p))
    everyone()
    compare_all()
    finish_queue(w, res)
    everyone()


def conflict_script(w, st, res):
    """Content conflicts (C01 C02 C08 C15 C19 on histories with `Conflict` outcomes): two pull requests touch
    the same file; the conflict shows up on the destination (origin) or on a later integration branch; the
    author resolves it the way the robot's message says; then everything is driven to the merge."""
    rng = random.Random(st['seed'])
    branches = w.init_branches
    where = st['where']                      # 'origin' | 'wbranch'
    w.pmap[1] = w.open_pr('bugfix/TEST-1', branches[0], file='shared.txt')
    dst2 = branches[0] if where == 'origin' else branches[1]
    # the other change to the same file lands first, on the destination (origin) or on a later branch (wbranch)
    w.pmap[2] = w.open_pr('bugfix/TEST-2', dst2, file='shared.txt')
    ev(w, 1, res)                             # integration branches of PR 1 exist before the conflict appears
    gate(w, 2, res)
    finish_queue(w, res)
    for rnd in range(4):
        r = ev(w, 1, res)
        if r['status'] != 'Conflict':
            break
        # which branch is in conflict: read the robot's instructions the way a user would
        src = w.pr(P(w, 1)).src_branch
        last = [c.content['raw'] for c in w.mock.Comment.items if c.pull_request_id == P(w, 1)][-1]
        if 'on **the feature branch**' in last:
            w.resolve_conflict(P(w, 1), 'origin')
        else:
            import re as _re
            m = _re.search(r'integration branch `(w/[^`]+)`', last)
            wname = m.group(1)
            ver = wname.split('/')[1]
            dst = [b for b in branches if b.endswith('/' + ver)][0]
            idx = branches.index(dst)
            tgt = branches[branches.index(w.pr(P(w, 1)).dst_branch):]
            j = tgt.index(dst)
            prev = src if j == 1 else 'w/%s/%s' % (tgt[j - 1].split('/')[1], src)
            w.resolve_conflict(P(w, 1), 'wbranch', wname=wname, dst=dst, prev=prev)
    if st.get('then') == 'reset':
        w.comment(P(w, 1), CONTRIB, '@robot reset')
        ev(w, 1, res)
        ev(w, 1, res)
    gate(w, 1, res)
    finish_queue(w, res)
    ev(w, 1, res)
    if st.get('then') == 'decline' and w.pr(P(w, 1)).status == 'OPEN':
        w.decline(P(w, 1))
        ev(w, 1, res)
