------------------------------- MODULE BertE -------------------------------
(***************************************************************************)
(* S - the system machine of Bert-E (DESIGN.md section 3.6).               *)
(*                                                                         *)
(* State = what Bert-E remembers, all of it outside the process: the       *)
(* remote git repository (refs + commit DAG) and the git host (pull        *)
(* requests, reviews, option comments, build statuses).  Environment       *)
(* actions (users, CI, admins, third parties) interleave with Bert-E jobs. *)
(* A job is  JobBegin (clone = snapshot of the remote refs; pure           *)
(* computation of the PLAN, the sequence of remote-mutating operations,    *)
(* transcribed from the code paths named next to each operator)  followed  *)
(* by one ApplyOp step per operation and JobEnd.  Between two operations   *)
(* Crash, RejectRef and third-party steps may happen (constant Faults).    *)
(*                                                                         *)
(* The model follows the implementation, not an idealised design:          *)
(* non-atomic named pushes, per-branch creation pushes of q/<v>, comments  *)
(* to merged PRs before the final push --all --prune, prune deleting what  *)
(* the clone did not see, the queue selection algorithm of                 *)
(* QueueCollection._process (SelectImpl) next to the property's own        *)
(* definition (SelectSpec).                                                *)
(***************************************************************************)
EXTENDS Naturals, Integers, Sequences, FiniteSets, TLC, SequencesExt, FiniteSetsExt, Json

CONSTANTS NV,            \* development versions are 1..NV (in cascade order)
          StabV,         \* versions that also have a stabilization branch
          HasHf,         \* TRUE: there is also one hotfix branch (a destination on its own, with its own queue)
          Absent0,       \* branches of the universe (NV, StabV) that do not exist initially
          Admin,         \* TRUE: the administrative jobs create_branch / delete_branch are available
          AlwaysW,       \* setting always_create_integration_branches
          AlwaysPRs,     \* setting always_create_integration_pull_requests
          TrackRep,      \* TRUE: count consecutive identical evaluations (for C10_Converge; enlarges the state space)
          Cmds,          \* commands a user may write in a comment: subset of {"reset", "force_reset"}
          Rewrites,      \* TRUE: users may restart (force-push) a source branch and commit on integration branches
          NP,            \* number of user pull requests
          UseQueue,      \* settings.use_queue
          SkipQueue,     \* settings.skip_queue_when_not_needed
          Faults,        \* allow Crash / RejectRef / ThirdParty steps inside jobs
          FaultKinds,    \* which of them: subset of {"crash", "reject", "third"}
          MaxC,          \* bound on the number of commits (state constraint)
          RepStatuses,   \* statuses CI may report
          Atomic,        \* TRUE: a job is one step (exhaustive configurations without faults)
          ReportFine,    \* TRUE: CI reports per commit; FALSE: per pull request / per queued PR
          AutoApprove,   \* TRUE: pull requests are opened already approved
          Opts,          \* option comments that may be posted: subset of {"byp","wait","unwait","nooct"}
          ReportOnce,    \* TRUE: a commit's build status is reported at most once (exhaustive configs)
          MaxLevel,      \* bound on the length of behaviours (state constraint)
          EmitJson,      \* TRUE: carry the JSON projection of each state in `out` (simulation)
          PruneOnlyOwned,\* FALSE = the code (push --all --prune deletes every remote head the clone does not have);
                         \* TRUE = an idealised design that only deletes w/ q/ branches (deviation switch)
          PushOnlyChanged,\* FALSE = the code (push --all pushes every local head, i.e. also source branches as they were at
                         \* clone time); TRUE = idealised: only heads the job changed are pushed (deviation switch)
          AtomicPush,    \* TRUE: named pushes are atomic (repaired code: git push --atomic)
          FixSelect,     \* TRUE: queue selection iterates to a fixpoint (repaired code)
          FixDirect      \* TRUE: no_octopus direct merge merges the w/ branch first (repaired code)

Users == {"author", "peer"}

(***************************************************************************)
(* Names.  A branch is a pair <<kind, v>>, kind in {"stab","dev"}; a ref   *)
(* name is a uniform 4-tuple <<k, p, bk, v>>.                              *)
(***************************************************************************)
Dev(v)  == <<"dev", v>>
Stab(v) == <<"stab", v>>
BN(b)    == <<b[1], 0, b[1], b[2]>>
SrcN(p)  == <<"src", p, "", 0>>
WN(p, b) == <<"w", p, b[1], b[2]>>
QN(b)    == <<"q", 0, b[1], b[2]>>
QWN(p, b) == <<"qw", p, b[1], b[2]>>
ThirdN   == <<"third", 0, "", 0>>
Kind(n) == n[1]
BranchOf(n) == <<n[3], n[4]>>

VARIABLES G,      \* commits: [n, anc : 1..n -> SUBSET 1..n, par : 1..n -> SUBSET 1..n,
                  \*           lab : 1..n -> {"base","user","manual","merge","third"}]
          refs,   \* remote heads: name -> commit
          pr,     \* 1..NP -> [st, dst, appr, byp, wait, nooct, cmd]
          child,  \* open integration pull requests: set of <<p, branch>>
          bs,     \* build status: commit -> status (absent = NOTSTARTED)
          greeted,\* PRs that received the init message
          job,    \* [on, kind, arg, plan, status, loc, pend]
          cmd,    \* command written on each PR after the robot's last message there ("" = none)
          lastmsg,\* code of the robot's last message on each PR (messages equal to it are not posted again);
                  \* it only decides whether a comment operation exists, never a ref: hidden by VIEW
          last,   \* label of the last step (for replay; hidden by VIEW)
          rep,    \* [key, n]: the last n jobs (n capped at 4) were the same evaluation, nothing else happened between
          out     \* JSON projection of the state (only when EmitJson; hidden by VIEW)
vars == <<G, refs, pr, child, bs, greeted, job, cmd, lastmsg, last, rep, out>>
View == IF TrackRep THEN <<G, refs, pr, child, bs, greeted, job, cmd, lastmsg, rep>> ELSE <<G, refs, pr, child, bs, greeted, job, cmd>>


RECURSIVE CascFrom(_)
CascFrom(v) == IF v > NV THEN <<>>
               ELSE (IF v \in StabV THEN <<Stab(v)>> ELSE <<>>) \o <<Dev(v)>> \o CascFrom(v + 1)
Casc == CascFrom(1)                         \* development / stabilization branches, in inclusion order
Hf == <<"hf", 0>>
Branches == {Casc[j] : j \in DOMAIN Casc} \cup (IF HasHf THEN {Hf} ELSE {})
\* the cascade is read from the branches that exist on the remote (BranchCascade.build)
IsLive(b) == BN(b) \in DOMAIN refs
RECURSIVE DevsFrom(_)
DevsFrom(v) == IF v > NV THEN <<>> ELSE (IF IsLive(Dev(v)) THEN <<Dev(v)>> ELSE <<>>) \o DevsFrom(v + 1)
Targets(b) == IF b[1] = "hf" THEN <<b>>          \* a hotfix destination alone
              ELSE IF b[1] = "stab" THEN <<b>> \o DevsFrom(b[2]) ELSE DevsFrom(b[2])
MergePaths == {DevsFrom(1)} \cup {Targets(Stab(v)) : v \in {x \in StabV : IsLive(Stab(x))}}
TagN(b) == <<"tag", 0, b[1], b[2]>>               \* archive tag left by delete_branch
Pos(b) == IF b = Hf THEN 0 ELSE CHOOSE j \in DOMAIN Casc : Casc[j] = b     \* the hotfix queue sorts first

Set(f, k, v) == (k :> v) @@ f
Del(f, K) == [x \in DOMAIN f \ K |-> f[x]]

NoJob == [on |-> FALSE, kind |-> "", arg |-> 0, plan |-> <<>>, status |-> "", rej |-> {}, tp |-> 0]

Anc(g, c) == g.anc[c]
Leq(g, a, b) == a \in g.anc[b]
Status(c) == IF c \in DOMAIN bs THEN bs[c] ELSE "NOTSTARTED"

NewCommit(g, parents, label) ==
  LET n == g.n + 1
  IN [n |-> n,
      anc |-> g.anc @@ (n :> ({n} \cup UNION {g.anc[x] : x \in parents})),
      par |-> g.par @@ (n :> parents),
      lab |-> g.lab @@ (n :> label)]

(***************************************************************************)
(* git merge (no conflicts in S: every user commit writes its own file)    *)
(*   lib/git.py Branch.merge, workflow/git_utils.py                        *)
(***************************************************************************)
Merge1(g, h, x) ==
  IF Leq(g, x, h) THEN [g |-> g, t |-> h]                       \* already up to date
  ELSE IF Leq(g, h, x) THEN [g |-> g, t |-> x]                  \* fast-forward
  ELSE LET g2 == NewCommit(g, {h, x}, "merge") IN [g |-> g2, t |-> g2.n]

Octo(g, h, a, b) ==                                             \* git merge a b (octopus)
  LET heads == {x \in {a, b} : ~ Leq(g, x, h)}
      maxh  == {x \in heads : ~ \E y \in heads : y # x /\ Leq(g, x, y)}
  IN IF maxh = {} THEN [g |-> g, t |-> h]
     ELSE IF Cardinality(maxh) = 1 /\ Leq(g, h, CHOOSE x \in maxh : TRUE)
          THEN [g |-> g, t |-> CHOOSE x \in maxh : TRUE]
     ELSE LET g2 == NewCommit(g, {h} \cup maxh, "merge") IN [g |-> g2, t |-> g2.n]

ConsM(g, h, a, b) == LET r == Merge1(g, h, a) IN Merge1(r.g, r.t, b)   \* consecutive_merge
\* robust_merge keeps the octopus result when both strategies give the same tree (always, here)
Merge3(nooct, g, h, a, b) == IF nooct THEN ConsM(g, h, a, b) ELSE Octo(g, h, a, b)

(***************************************************************************)
(* Remote operations (the plan).  Uniform record:                          *)
(*  k in {"push","pushall","delref","comment","createpr","declinepr"}      *)
(***************************************************************************)
Op(k, loc, names, prune, p, b, code) ==
  [k |-> k, loc |-> loc, names |-> names, prune |-> prune, p |-> p, b |-> b, code |-> code, base |-> <<>>]
PushOp(loc, names)   == Op("push", loc, names, FALSE, 0, Dev(0), "")
PushAllOp(loc, prune) == Op("pushall", loc, {}, prune, 0, Dev(0), "")
\* push --all with the clone's snapshot attached (used by the idealised variant PushOnlyChanged)
PushAllFrom(base, loc, prune) == [PushAllOp(loc, prune) EXCEPT !.base = base]
DelRefOp(n)          == Op("delref", <<>>, {n}, FALSE, 0, Dev(0), "")
CommentOp(p, code)   == Op("comment", <<>>, {}, FALSE, p, Dev(0), code)
CreatePrOp(p, b)     == Op("createpr", <<>>, {}, FALSE, p, b, "")
DeclinePrOp(p, b)    == Op("declinepr", <<>>, {}, FALSE, p, b, "")

(***************************************************************************)
(* Queues (workflow/gitwaterflow/branches.py QueueCollection)              *)
(***************************************************************************)
QBranches(r) == {b \in Branches : QN(b) \in DOMAIN r \/ \E p \in 1..NP : QWN(p, b) \in DOMAIN r}
QEntries(r, b) == {[p |-> p, c |-> r[QWN(p, b)]] : p \in {q \in 1..NP : QWN(q, b) \in DOMAIN r}}
\* integration queues of one version, newest first (finalize(): sort by inclusion)
QList(g, r, b) == SetToSortSeq(QEntries(r, b), LAMBDA x, y : x.c # y.c /\ Leq(g, y.c, x.c))
Queues(g, r) == [b \in QBranches(r) |-> QList(g, r, b)]
QueuedPrs(r) == {p \in 1..NP : \E b \in Branches : QWN(p, b) \in DOMAIN r}

\* horizontal validation (MasterQueueMissing / LateVsDev / NotInSync / LateVsInt ...)
\* vertical validation, first half (MasterQueueMissing): on a merge path, once a version has a queue every later
\* version has its master queue (a newest branch created without the queues being rebuilt breaks this)
PathsOK(r) ==
  \A path \in MergePaths :
    LET qs == {j \in DOMAIN path : path[j] \in QBranches(r)}
    IN qs # {} => \A j \in Min(qs)..Len(path) : QN(path[j]) \in DOMAIN r
QueuesCoherent(g, r) ==
  /\ PathsOK(r)
  /\ \A b \in QBranches(r) :
       /\ QN(b) \in DOMAIN r
       /\ BN(b) \in DOMAIN r
       /\ Leq(g, r[BN(b)], r[QN(b)])
       /\ LET L == QList(g, r, b)
          IN IF L = <<>> THEN r[QN(b)] = r[BN(b)]
             ELSE /\ L[1].c = r[QN(b)]
                  /\ \A j \in 1..(Len(L) - 1) : Leq(g, L[j + 1].c, L[j].c)
                  /\ Leq(g, r[BN(b)], L[Len(L)].c)

\* order of the versions of a queue dict: cascade order (compare_queues: stab before its dev)
KeysInOrder(q) == (IF Hf \in DOMAIN q THEN <<Hf>> ELSE <<>>) \o SelectSeq(Casc, LAMBDA b : b \in DOMAIN q)
RevSeq(s) == [j \in 1..Len(s) |-> s[Len(s) + 1 - j]]
RECURSIVE Uniq(_)
Uniq(s) == IF s = <<>> THEN <<>>
           ELSE LET t == Uniq(SubSeq(s, 1, Len(s) - 1))
                IN IF \E j \in DOMAIN t : t[j] = s[Len(s)] THEN t ELSE Append(t, s[Len(s)])
\* _extract_pr_ids: PR ids of the greatest development queue, oldest first
ExtractPrs(q) ==
  LET devs == SelectSeq(KeysInOrder(q), LAMBDA b : b[1] = "dev")
      hfp == IF Hf \in DOMAIN q THEN Uniq(RevSeq([j \in DOMAIN q[Hf] |-> q[Hf][j].p])) ELSE <<>>
      main == IF devs = <<>> THEN <<>>
              ELSE LET L == q[devs[Len(devs)]]
                   IN Uniq(RevSeq([j \in DOMAIN L |-> L[j].p]))
  IN hfp \o SelectSeq(main, LAMBDA p : ~ \E j \in DOMAIN hfp : hfp[j] = p)
\* pop the integration queues of one version up to and including PR f
RECURSIVE PopTo(_, _)
PopTo(L, f) == IF L = <<>> THEN <<>> ELSE IF L[1].p = f THEN Tail(L) ELSE PopTo(Tail(L), f)
\* _recursive_lookup
RECURSIVE Lookup(_)
Lookup(q) ==
  LET ks == KeysInOrder(q)
      bad == SelectSeq(ks, LAMBDA b : q[b] # <<>> /\ Status(q[b][1].c) # "SUCCESSFUL")
  IN IF bad = <<>> THEN q
     ELSE LET f == q[bad[1]][1].p
          IN Lookup([b \in DOMAIN q |->
                        IF \E j \in DOMAIN q[b] : q[b][j].p = f THEN PopTo(q[b], f) ELSE q[b]])
\* _remove_unmergeable
RECURSIVE DropWhileNotIn(_, _)
DropWhileNotIn(L, P) == IF L = <<>> THEN <<>>
                        ELSE IF L[1].p \in P THEN L ELSE DropWhileNotIn(Tail(L), P)
RestrictQ(q, prs) == [b \in DOMAIN q |-> DropWhileNotIn(q[b], {prs[j] : j \in DOMAIN prs})]
OnPath(q, path) == [b \in {x \in DOMAIN q : x = Hf \/ \E j \in DOMAIN path : path[j] = x} |-> q[b]]
PathSeq == SetToSortSeq(MergePaths, LAMBDA x, y : Len(x) > Len(y) \/ (Len(x) = Len(y) /\ x[1][2] < y[1][2]))
\* one pass of _process over all merge paths: keep the shortest per-path answer
RECURSIVE ProcessPass(_, _, _)
ProcessPass(q, cand, j) ==
  IF j > Len(PathSeq) THEN cand
  ELSE LET pm == ExtractPrs(Lookup(OnPath(q, PathSeq[j])))
       IN ProcessPass(q, IF Len(pm) < Len(cand) THEN pm ELSE cand, j + 1)
RECURSIVE ProcessFix(_, _)
ProcessFix(q, cand) ==
  LET c2 == ProcessPass(RestrictQ(q, cand), cand, 1)
  IN IF c2 = cand THEN cand ELSE ProcessFix(q, c2)
SelectImpl(q, force) ==
  IF force THEN ExtractPrs(q)
  ELSE IF FixSelect THEN ProcessFix(q, ExtractPrs(q))
  ELSE ProcessPass(q, ExtractPrs(q), 1)

(* The property's own definition (C05): longest prefix, in order of entry, such that for every  *)
(* version the newest selected PR that has a commit there is SUCCESSFUL.                         *)
IsHfPr(q, p) == Hf \in DOMAIN q /\ \E j \in DOMAIN q[Hf] : q[Hf][j].p = p
MainOrder(q) == SelectSeq(ExtractPrs(q), LAMBDA p : ~ IsHfPr(q, p))
HfOrder(q) == SelectSeq(ExtractPrs(q), LAMBDA p : IsHfPr(q, p))
GoodPrefix(q, order, k, Vs) ==
  \A b \in Vs :
    LET sel == {order[j] : j \in 1..k}
        L == SelectSeq(q[b], LAMBDA e : e.p \in sel)       \* newest first
    IN L # <<>> => Status(L[1].c) = "SUCCESSFUL"
LongestGood(q, order, Vs) == SubSeq(order, 1, Max({k \in 0..Len(order) : GoodPrefix(q, order, k, Vs)}))
SelectSpec(q, force) ==
  IF force THEN ExtractPrs(q)
  ELSE LongestGood(q, HfOrder(q), DOMAIN q \cap {Hf}) \o LongestGood(q, MainOrder(q), DOMAIN q \ {Hf})

(***************************************************************************)
(* handle_merge_queues (queueing.py) - plan of a queue evaluation          *)
(***************************************************************************)
WOf(r, p) == {n \in DOMAIN r : Kind(n) = "w" /\ n[2] = p}
EvalQueuesPlan(g, r, force) ==
  IF ~ QueuesCoherent(g, r) THEN [g |-> g, plan |-> <<>>, status |-> "IncoherentQueues", pend |-> <<>>]
  ELSE
  LET q == Queues(g, r)
      sel == SelectImpl(q, force)
  IN IF sel = <<>> THEN
       LET failed == {q[b][1].p : b \in {x \in DOMAIN q : q[x] # <<>> /\ Status(q[x][1].c) = "FAILED"}}
       IN IF failed = {} THEN [g |-> g, plan |-> <<>>, status |-> "NothingToDo", pend |-> <<>>]
          ELSE [g |-> g,
                plan |-> [j \in 1..Cardinality(failed) |->
                            CommentOp(SetToSeq(failed)[j], "queue_build_failed")],
                status |-> "QueueBuildFailed", pend |-> <<>>]
     ELSE
       LET mq == RestrictQ(q, sel)
           selS == {sel[j] : j \in DOMAIN sel}
           \* merge_queues: fast-forward each destination to its newest mergeable queue commit
           loc1 == [n \in DOMAIN r |->
                      IF Kind(n) \in {"dev", "stab", "hf"} /\ BranchOf(n) \in DOMAIN mq /\ mq[BranchOf(n)] # <<>>
                      THEN mq[BranchOf(n)][1].c ELSE r[n]]
           goneq == {n \in DOMAIN r : Kind(n) = "qw" /\ BranchOf(n) \in DOMAIN mq /\
                                       \E j \in DOMAIN mq[BranchOf(n)] : mq[BranchOf(n)][j].p = n[2]}
           \* close_queued_pull_request: the integration branches of the present cascade
           gonew == UNION {{WN(p, Targets(pr[p].dst)[j]) : j \in DOMAIN Targets(pr[p].dst)} \cap DOMAIN r : p \in selS}
           loc2 == Del(loc1, goneq \cup gonew)
           notes == [j \in DOMAIN sel |->
                       CommentOp(sel[j], IF Leq(g, r[SrcN(sel[j])], loc1[BN(pr[sel[j]].dst)])
                                         THEN "successful_merge" ELSE "partial_merge")]
       IN [g |-> g, plan |-> notes \o <<PushAllFrom(r, loc2, TRUE)>>, status |-> "Merged", pend |-> <<>>]

(***************************************************************************)
(* _handle_pull_request (gitwaterflow/__init__.py) - plan of a PR evaluation *)
(***************************************************************************)
RECURSIVE CreateW(_, _, _, _)
\* create_integration_branches: missing w/ branches start from their destination
CreateW(loc, p, T, i) ==
  IF i > Len(T) THEN loc
  ELSE CreateW(IF WN(p, T[i]) \in DOMAIN loc THEN loc ELSE Set(loc, WN(p, T[i]), loc[BN(T[i])]),
               p, T, i + 1)
RECURSIVE InSync(_, _, _, _, _, _)
InSync(g, loc, p, T, i, prev) ==
  IF i > Len(T) THEN TRUE
  ELSE Leq(g, prev, loc[WN(p, T[i])]) /\ InSync(g, loc, p, T, i + 1, loc[WN(p, T[i])])
RECURSIVE UpdW(_, _, _, _, _, _, _)
\* update_integration_branches: merge destination and previous integration branch into each w/
UpdW(g, loc, p, T, i, prev, nooct) ==
  IF i > Len(T) THEN [g |-> g, loc |-> loc]
  ELSE LET wn == WN(p, T[i])
           r == Merge3(nooct, g, loc[wn], loc[BN(T[i])], prev)
       IN UpdW(r.g, Set(loc, wn, r.t), p, T, i + 1, r.t, nooct)
ITip(loc, p, T, i) == IF i = 1 THEN loc[SrcN(p)] ELSE loc[WN(p, T[i])]
RECURSIVE AddQ(_, _, _, _, _, _, _)
\* add_to_queue: q/v gets (w/v, previous queue-integration branch) merged, q/w/p/v is created there
AddQ(g, loc, p, T, i, prevq, nooct) ==
  IF i > Len(T) THEN [g |-> g, loc |-> loc]
  ELSE LET qn == QN(T[i])
           r == IF i = 1 THEN Merge1(g, loc[qn], loc[SrcN(p)])
                ELSE Merge3(nooct, g, loc[qn], loc[WN(p, T[i])], prevq)
           loc2 == Set(Set(loc, qn, r.t), QWN(p, T[i]), r.t)
       IN AddQ(r.g, loc2, p, T, i + 1, r.t, nooct)
RECURSIVE DirectMerge(_, _, _, _, _, _, _)
\* merge_integration_branches
DirectMerge(g, loc, p, T, i, prevd, nooct) ==
  IF i > Len(T) THEN [g |-> g, loc |-> loc]
  ELSE LET dn == BN(T[i])
           r == IF i = 1 THEN Merge1(g, loc[dn], loc[SrcN(p)])
                ELSE IF nooct /\ FixDirect THEN ConsM(g, loc[dn], loc[WN(p, T[i])], prevd)
                ELSE Merge3(nooct, g, loc[dn], prevd, loc[WN(p, T[i])])
       IN DirectMerge(r.g, Set(loc, dn, r.t), p, T, i + 1, r.t, nooct)

\* update_integration_branches, first half: the history of the integration branches must come from the
\* current source branch, the previous integration branch and the destination only
DiffC(g, a, b) == g.anc[a] \ g.anc[b]
RECURSIVE Mismatch(_, _, _, _, _, _, _)
Mismatch(g, loc, p, T, i, prev, prevdst) ==
  IF i > Len(T) THEN FALSE
  ELSE LET w == loc[WN(p, T[i])]
           d == loc[BN(T[i])]
           prevset == DiffC(g, prev, prevdst)
           dstset == DiffC(g, d, prevdst)
           wset == DiffC(g, w, d) \ prevset
           orphan == \E c \in wset : Cardinality(g.par[c]) = 1 /\ g.par[c] \cap wset = {}
           alien == \E c \in wset : ~ (g.par[c] \subseteq (prevset \cup dstset \cup wset))
       IN orphan \/ alien \/ Mismatch(g, loc, p, T, i + 1, w, d)

\* commands.py _reset: commits of an integration branch that are neither the robot's merges nor (past or
\* present) commits of the source branch would be lost
RECURSIVE LossyScan(_, _, _, _)
LossyScan(g, cs, feature, danc) ==
  IF cs = <<>> THEN FALSE
  ELSE LET c == Head(cs)
       IN IF c \in feature \/ g.lab[c] = "merge" THEN LossyScan(g, Tail(cs), feature, danc)
          ELSE IF Cardinality(g.par[c]) = 1 /\ (g.par[c] \subseteq feature \/ g.par[c] \subseteq danc)
               THEN LossyScan(g, Tail(cs), feature \cup {c}, danc)
          ELSE TRUE
LossyW(g, r, p, b) ==
  LossyScan(g, SetToSortSeq(DiffC(g, r[WN(p, b)], r[BN(b)]), <), DiffC(g, r[SrcN(p)], r[BN(b)]), g.anc[r[BN(b)]])
ResetPlan(g, r, p, T, force, pre) ==
  LET wbs == {T[j] : j \in {x \in 1..Len(T) : WN(p, T[x]) \in DOMAIN r}}
      ws == {WN(p, b) : b \in wbs}
      kids == {b \in wbs : <<p, b>> \in child}
      kseq == SetToSortSeq(kids, LAMBDA x, y : Pos(x) < Pos(y))
  IN IF wbs = {} THEN [g |-> g, plan |-> pre \o <<CommentOp(p, "reset_complete")>>, status |-> "ResetComplete", pend |-> <<>>]
     ELSE IF ~ force /\ \E b \in wbs : LossyW(g, r, p, b)
          THEN [g |-> g, plan |-> pre \o <<CommentOp(p, "lossy_reset")>>, status |-> "LossyResetWarning", pend |-> <<>>]
     ELSE [g |-> g,
           plan |-> pre \o <<PushAllFrom(r, Del(r, ws), TRUE)>> \o [j \in DOMAIN kseq |-> DeclinePrOp(p, kseq[j])]
                    \o <<CommentOp(p, "reset_complete")>>,
           status |-> "ResetComplete", pend |-> <<>>]

Worst(S) ==   \* check_build_status ordering
  IF "FAILED" \in S THEN "FAILED" ELSE IF "STOPPED" \in S THEN "STOPPED"
  ELSE IF "NOTSTARTED" \in S THEN "NOTSTARTED" ELSE IF "INPROGRESS" \in S THEN "INPROGRESS"
  ELSE "SUCCESSFUL"

MergedIn(g, r, q) == pr[q].st = "open" /\ SrcN(q) \in DOMAIN r /\ BN(pr[q].dst) \in DOMAIN r
                     /\ Leq(g, r[SrcN(q)], r[BN(pr[q].dst)])
Greet(p) == IF p \in greeted THEN <<>> ELSE <<CommentOp(p, "init")>>
Res(g, plan, status) == [g |-> g, plan |-> plan, status |-> status, pend |-> <<>>]

EvalPrPlan(g, r, p) ==
  LET P == pr[p]
      T == Targets(P.dst)
      n == Len(T)
  IN
  IF P.st = "none" THEN Res(g, <<>>, "NoSuchPr")
  ELSE IF P.st = "merged" THEN Res(g, <<>>, "NothingToDo")
  \* early_checks: the destination branch is gone
  ELSE IF BN(P.dst) \notin DOMAIN r THEN Res(g, <<CommentOp(p, "incorrect_destination")>>, "WrongDestination")
  \* handle_comments: a command written after the robot's last message is executed first of all (even on a
  \* held-back or declined pull request); the greeting, when it is still to be posted, comes after the command
  \* and hides it
  ELSE IF cmd[p] # "" /\ p \in greeted /\ SrcN(p) \in DOMAIN r THEN ResetPlan(g, r, p, T, cmd[p] = "force_reset", <<>>)
  ELSE IF P.wait THEN Res(g, Greet(p), "NothingToDo")
  \* check_dependencies: `after_pull_request=q` holds the pull request back until q is merged
  ELSE IF P.after # 0 /\ ~ (pr[P.after].st = "merged" \/ MergedIn(g, r, P.after))
       THEN Res(g, Greet(p) \o <<CommentOp(p, "after_pull_request")>>, "AfterPullRequest")
  ELSE IF P.st = "declined" THEN              \* handle_declined_pull_request
    \* only the integration branches / pull requests of the present cascade are looked at
    LET kids == {b \in {T[j] : j \in 1..n} : <<p, b>> \in child}
        ws == {WN(p, T[j]) : j \in 1..n} \cap DOMAIN r
    IN IF kids = {} /\ ws = {} THEN Res(g, Greet(p), "NothingToDo")
       ELSE Res(g, Greet(p) \o [j \in 1..Cardinality(kids) |-> DeclinePrOp(p, SetToSeq(kids)[j])]
                    \o <<PushAllFrom(r, Del(r, ws), TRUE)>>, "PullRequestDeclined")
  ELSE IF SrcN(p) \notin DOMAIN r THEN Res(g, Greet(p), "NothingToDo")
  ELSE IF Leq(g, r[SrcN(p)], r[BN(P.dst)]) THEN Res(g, Greet(p), "NothingToDo")
  \* check_integration_branches: integration data is only created when configured, asked for, or once the
  \* author has approved
  ELSE IF ~ (AlwaysW \/ P.mkw \/ AlwaysPRs \/ P.mkprs \/ P.appr \/ n <= 1)
       THEN Res(g, Greet(p) \o <<CommentOp(p, "request_integration_branches")>>, "RequestIntegrationBranches")
  ELSE IF UseQueue /\ \E j \in 1..n : QWN(p, T[j]) \in DOMAIN r THEN    \* already_in_queue
    LET e == EvalQueuesPlan(g, r, FALSE)
    IN [e EXCEPT !.plan = Greet(p) \o @]
  ELSE
  LET loc0 == CreateW(r, p, T, 2)
      newW == {T[j] : j \in {x \in 2..n : WN(p, T[x]) \notin DOMAIN r}}
      sync == InSync(g, loc0, p, T, 2, r[SrcN(p)])
      u == UpdW(g, loc0, p, T, 2, r[SrcN(p)], P.nooct)
      \* queue mode + in sync: keep the integration branches as they are on the remote
      loc1 == IF UseQueue /\ sync
              THEN [x \in DOMAIN u.loc |-> IF Kind(x) = "w" /\ x[2] = p /\ x \in DOMAIN r THEN r[x] ELSE u.loc[x]]
              ELSE u.loc
      g1 == u.g
      wnames == {WN(p, T[j]) : j \in 2..n}
      pushW == IF n > 1 THEN <<PushOp(loc1, wnames)>> ELSE <<>>
      newKids == IF AlwaysPRs \/ P.mkprs THEN {T[j] : j \in {x \in 2..n : <<p, T[x]>> \notin child}} ELSE {}
      mkKids == [j \in 1..Cardinality(newKids) |-> CreatePrOp(p, SetToSortSeq(newKids, LAMBDA x, y : Pos(x) < Pos(y))[j])]
      idc == IF n > 1 /\ (newW # {} \/ newKids # {}) THEN <<CommentOp(p, "integration_data_created")>> ELSE <<>>
      pre == Greet(p) \o pushW \o mkKids \o idc
      tips == {ITip(loc1, p, T, j) : j \in 1..n}
      worst == Worst({Status(c) : c \in tips})
  IN
  IF Mismatch(g, loc0, p, T, 2, r[SrcN(p)], r[BN(T[1])])
  THEN Res(g, Greet(p) \o <<CommentOp(p, "history_mismatch")>>, "BranchHistoryMismatch")
  ELSE IF ~ P.appr THEN Res(g1, pre \o <<CommentOp(p, "need_approval")>>, "ApprovalRequired")
  ELSE IF ~ P.byp /\ worst \in {"FAILED", "STOPPED"} THEN Res(g1, pre \o <<CommentOp(p, "build_failed")>>, "BuildFailed")
  ELSE IF ~ P.byp /\ worst = "NOTSTARTED" THEN Res(g1, pre, "BuildNotStarted")
  ELSE IF ~ P.byp /\ worst = "INPROGRESS" THEN Res(g1, pre, "BuildInProgress")
  ELSE
  LET upToDate == /\ Leq(g1, r[BN(T[1])], loc1[SrcN(p)])
                  /\ \A j \in 2..n : Leq(g1, r[BN(T[j])], loc1[WN(p, T[j])])
      needQ == UseQueue /\ (~ SkipQueue \/ QueuedPrs(r) # {} \/ ~ upToDate)
  IN
  IF needQ THEN
    IF ~ QueuesCoherent(g1, r) THEN Res(g1, pre \o <<CommentOp(p, "queue_out_of_order")>>, "QueueOutOfOrder")
    ELSE
    LET missing == SelectSeq(T, LAMBDA b : QN(b) \notin DOMAIN r)
        \* get_queue_branch: a missing q/v is created from its destination and pushed at once
        locq == [x \in DOMAIN loc1 \cup {QN(T[j]) : j \in 1..n} |->
                   IF x \in DOMAIN loc1 THEN loc1[x] ELSE loc1[BN(BranchOf(x))]]
        mkq == [j \in DOMAIN missing |-> PushOp(locq, {QN(missing[j])})]
        a == AddQ(g1, locq, p, T, 1, 0, P.nooct)
        qnames == {QN(T[j]) : j \in 1..n} \cup {QWN(p, T[j]) : j \in 1..n}
    IN Res(a.g, pre \o mkq \o <<PushOp(a.loc, qnames), CommentOp(p, "queued")>>, "Queued")
  ELSE
    LET qb == IF UseQueue THEN QBranches(r) ELSE {}
        \* queues.delete(): one deletion push per q/v (only when nothing is queued: is_needed)
        delq == [j \in 1..Cardinality(qb) |->
                   DelRefOp(QN(SetToSortSeq(qb, LAMBDA x, y : Pos(x) < Pos(y))[j]))]
        locd == Del(loc1, {QN(b) : b \in qb})
        d == DirectMerge(g1, locd, p, T, 1, 0, P.nooct)
        locf == Del(d.loc, wnames)
    IN Res(d.g, pre \o delq \o <<PushAllFrom(r, locf, TRUE), CommentOp(p, "successful_merge")>>, "SuccessMessage")

(***************************************************************************)
(* handle_commit (gitwaterflow/__init__.py)                                *)
(***************************************************************************)
EvalCommitPlan(g, r, c) ==
  LET cand == {n \in DOMAIN r : r[n] = c}
  IN IF cand = {} THEN Res(g, <<>>, "NothingToDo")
     ELSE IF UseQueue /\ \E n \in cand : Kind(n) = "q" THEN EvalQueuesPlan(g, r, FALSE)
     ELSE LET ps == {p \in 1..NP : pr[p].st = "open" /\ (SrcN(p) \in cand \/ \E n \in cand : Kind(n) = "w" /\ n[2] = p)}
          IN IF ps = {} THEN Res(g, <<>>, "NothingToDo") ELSE EvalPrPlan(g, r, Min(ps))

(***************************************************************************)
(* jobs/rebuild_queues.py, jobs/delete_queues.py                           *)
(***************************************************************************)
QRefs(r) == {n \in DOMAIN r : Kind(n) \in {"q", "qw"}}
QueuedOrder(g, r) == IF QueuesCoherent(g, r) /\ QBranches(r) # {} THEN ExtractPrs(Queues(g, r)) ELSE <<>>
RebuildPlan(g, r) ==
  IF ~ UseQueue THEN Res(g, <<>>, "NotMyJob")
  ELSE IF QRefs(r) = {} THEN Res(g, <<>>, "JobSuccess")
  ELSE [g |-> g, plan |-> <<PushAllFrom(r, Del(r, QRefs(r)), TRUE)>>, status |-> "JobSuccess",
        pend |-> QueuedOrder(g, r)]
DeleteQueuesPlan(g, r) ==
  IF ~ UseQueue THEN Res(g, <<>>, "NotMyJob")
  ELSE IF QRefs(r) = {} THEN Res(g, <<>>, "JobSuccess")
  ELSE Res(g, <<PushAllFrom(r, Del(r, QRefs(r)), TRUE)>>, "JobSuccess")
\* jobs/create_branch.py
LastDev == LET d == DevsFrom(1) IN d[Len(d)]
CreateBranchPlan(g, r, b) ==
  LET devs == DevsFrom(1)
      lower == SelectSeq(devs, LAMBDA d : d[2] < b[2])
      from == IF b[1] = "stab" THEN Dev(b[2]) ELSE IF lower # <<>> THEN lower[Len(lower)] ELSE devs[1]
      r2 == Set(r, BN(b), r[BN(from)])
      mk == <<PushOp(r2, {BN(b)})>>
  IN IF BN(b) \in DOMAIN r THEN Res(g, <<>>, "NothingToDo")
     ELSE IF TagN(b) \in DOMAIN r THEN Res(g, <<>>, "JobFailure")
     ELSE IF b[1] = "stab" /\ ~ IsLive(Dev(b[2])) THEN Res(g, <<>>, "JobFailure")
     \* an older development branch is refused while pull requests are queued
     ELSE IF UseQueue /\ b[1] = "dev" /\ b[2] < LastDev[2] /\ QueuedPrs(r) # {} THEN Res(g, <<>>, "JobFailure")
     ELSE IF ~ UseQueue \/ b[1] = "stab" THEN Res(g, mk, "JobSuccess")
     \* a new development branch: the queues are rebuilt at once (RebuildQueuesJob chained in the same job)
     ELSE IF QRefs(r) = {} THEN Res(g, mk, "JobSuccess")
     ELSE [g |-> g, plan |-> mk \o <<PushAllFrom(r2, Del(r2, QRefs(r2)), TRUE)>>, status |-> "JobSuccess",
           pend |-> QueuedOrder(g, r)]
\* jobs/delete_branch.py
TagOp(b, c) == [Op("tag", <<>>, {TagN(b)}, FALSE, 0, b, "") EXCEPT !.loc = (TagN(b) :> c)]
DeleteBranchPlan(g, r, b) ==
  IF BN(b) \notin DOMAIN r THEN Res(g, <<>>, "NothingToDo")
  ELSE IF TagN(b) \in DOMAIN r THEN Res(g, <<>>, "JobFailure")
  ELSE IF b[1] = "dev" /\ IsLive(Stab(b[2])) THEN Res(g, <<>>, "JobFailure")
  ELSE IF UseQueue /\ \E p \in 1..NP : QWN(p, b) \in DOMAIN r THEN Res(g, <<>>, "JobFailure")
  ELSE Res(g, (IF UseQueue /\ QN(b) \in DOMAIN r THEN <<DelRefOp(QN(b))>> ELSE <<>>)
              \o <<TagOp(b, r[BN(b)]), DelRefOp(BN(b))>>, "JobSuccess")
ForceMergePlan(g, r) ==
  IF ~ UseQueue THEN Res(g, <<>>, "NotMyJob") ELSE EvalQueuesPlan(g, r, TRUE)

(***************************************************************************)
(* Initial state                                                           *)
(***************************************************************************)
\* named values for Absent0 (a configuration file cannot write tuples)
AbsMid == {Dev(2)}
AbsMidStab == {Stab(3), Dev(2)}
AbsStab == {Stab(2)}
AbsLast == {Dev(NV)}
Casc0 == SelectSeq(Casc, LAMBDA b : b \notin Absent0)
Pos0(b) == CHOOSE j \in DOMAIN Casc0 : Casc0[j] = b
NBase == Len(Casc0) + 1 + (IF HasHf THEN 1 ELSE 0)
G0 == [n |-> NBase,
       anc |-> [c \in 1..NBase |-> IF HasHf /\ c = NBase THEN {1, c} ELSE 1..c],
       par |-> [c \in 1..NBase |-> IF c = 1 THEN {} ELSE IF HasHf /\ c = NBase THEN {1} ELSE {c - 1}],
       lab |-> [c \in 1..NBase |-> "base"]]
Init ==
  /\ G = G0
  /\ refs = [n \in {BN(b) : b \in Branches \ Absent0} |-> IF BranchOf(n) = Hf THEN NBase ELSE Pos0(BranchOf(n)) + 1]
  /\ pr = [p \in 1..NP |-> [st |-> "none", dst |-> Dev(1), appr |-> FALSE, byp |-> FALSE,
                            wait |-> FALSE, nooct |-> FALSE, after |-> 0, mkw |-> FALSE, mkprs |-> FALSE]]
  /\ child = {}
  /\ bs = <<>>
  /\ greeted = {}
  /\ lastmsg = [p \in 1..NP |-> ""]
  /\ cmd = [p \in 1..NP |-> ""]
  /\ job = NoJob
  /\ last = <<"init">>

(***************************************************************************)
(* Environment                                                             *)
(***************************************************************************)
Idle == ~ job.on
MergedNow(p) == pr[p].st = "open" /\ SrcN(p) \in DOMAIN refs /\ BN(pr[p].dst) \in DOMAIN refs
                /\ Leq(G, refs[SrcN(p)], refs[BN(pr[p].dst)])

OpenPR(p, dst) ==
  /\ Idle /\ pr[p].st = "none" /\ \A q \in 1..(p - 1) : pr[q].st # "none"
  /\ BN(dst) \in DOMAIN refs
  /\ LET g2 == NewCommit(G, {refs[BN(dst)]}, "user")
     IN /\ G' = g2
        /\ refs' = Set(refs, SrcN(p), g2.n)
  /\ pr' = [pr EXCEPT ![p] = [@ EXCEPT !.st = "open", !.dst = dst, !.appr = AutoApprove]]
  /\ last' = <<"open_pr", p, dst, G'.n>>
  /\ UNCHANGED <<child, bs, greeted, job, lastmsg, cmd>>

PushSrc(p) ==
  /\ Idle /\ pr[p].st \in {"open", "merged"} /\ SrcN(p) \in DOMAIN refs
  /\ LET g2 == NewCommit(G, {refs[SrcN(p)]}, "user")
     IN /\ G' = g2
        /\ refs' = Set(refs, SrcN(p), g2.n)
  /\ last' = <<"push_src", p, G'.n>>
  /\ UNCHANGED <<pr, child, bs, greeted, job, lastmsg, cmd>>

Approve(p) ==
  /\ Idle /\ pr[p].st = "open" /\ ~ pr[p].appr
  /\ pr' = [pr EXCEPT ![p].appr = TRUE]
  /\ last' = <<"approve", p>>
  /\ UNCHANGED <<G, refs, child, bs, greeted, job, lastmsg, cmd>>

Unapprove(p) ==
  /\ Idle /\ pr[p].st = "open" /\ pr[p].appr /\ ~ AutoApprove
  /\ pr' = [pr EXCEPT ![p].appr = FALSE]
  /\ last' = <<"unapprove", p>>
  /\ UNCHANGED <<G, refs, child, bs, greeted, job, lastmsg, cmd>>

SetOpt(p, o) ==
  /\ Idle /\ pr[p].st = "open"
  /\ \/ o = "byp" /\ ~ pr[p].byp /\ pr' = [pr EXCEPT ![p].byp = TRUE]
     \/ o = "wait" /\ ~ pr[p].wait /\ pr' = [pr EXCEPT ![p].wait = TRUE]
     \/ o = "unwait" /\ pr[p].wait /\ pr' = [pr EXCEPT ![p].wait = FALSE]
     \/ o = "nooct" /\ ~ pr[p].nooct /\ pr' = [pr EXCEPT ![p].nooct = TRUE]
     \/ o = "mkw" /\ ~ pr[p].mkw /\ pr' = [pr EXCEPT ![p].mkw = TRUE]         \* create_integration_branches
     \/ o = "mkprs" /\ ~ pr[p].mkprs /\ pr' = [pr EXCEPT ![p].mkprs = TRUE]   \* create_pull_requests
  /\ last' = <<"opt", p, o>>
  /\ UNCHANGED <<G, refs, child, bs, greeted, job, lastmsg, cmd>>

Command(p, c) ==
  /\ Idle /\ pr[p].st = "open" /\ cmd[p] = "" /\ c \in Cmds
  /\ cmd' = [cmd EXCEPT ![p] = c]
  /\ last' = <<"cmd", p, c>>
  /\ UNCHANGED <<G, refs, pr, child, bs, greeted, job, lastmsg>>

\* the author starts the work again: the source branch is force-pushed to a new commit on top of the destination
RestartSrc(p) ==
  /\ Rewrites /\ Idle /\ pr[p].st = "open" /\ SrcN(p) \in DOMAIN refs /\ ~ MergedNow(p)
  /\ LET g2 == NewCommit(G, {refs[BN(pr[p].dst)]}, "user")
     IN /\ G' = g2
        /\ refs' = Set(refs, SrcN(p), g2.n)
  /\ last' = <<"restart_src", p, G'.n>>
  /\ UNCHANGED <<pr, child, bs, greeted, job, lastmsg, cmd>>

\* the author commits directly on an integration branch (e.g. to adapt the change to a later version)
ManualW(p, b) ==
  /\ Rewrites /\ Idle /\ pr[p].st = "open" /\ WN(p, b) \in DOMAIN refs
  /\ ~ \E c \in G.anc[refs[WN(p, b)]] : G.lab[c] = "manual"
  /\ LET g2 == NewCommit(G, {refs[WN(p, b)]}, "manual")
     IN /\ G' = g2
        /\ refs' = Set(refs, WN(p, b), g2.n)
  /\ last' = <<"manual_w", p, b, G'.n>>
  /\ UNCHANGED <<pr, child, bs, greeted, job, lastmsg, cmd>>

SetAfter(p, q) ==
  /\ "after" \in Opts /\ Idle /\ pr[p].st = "open" /\ pr[p].after = 0 /\ q # p /\ pr[q].st # "none"
  /\ pr' = [pr EXCEPT ![p].after = q]
  /\ last' = <<"after", p, q>>
  /\ UNCHANGED <<G, refs, child, bs, greeted, job, lastmsg, cmd>>

Decline(p) ==
  /\ Idle /\ pr[p].st = "open" /\ ~ MergedNow(p)
  /\ pr' = [pr EXCEPT ![p].st = "declined"]
  /\ last' = <<"decline", p>>
  /\ UNCHANGED <<G, refs, child, bs, greeted, job, lastmsg, cmd>>

Reportable == {refs[n] : n \in {x \in DOMAIN refs : Kind(x) \in {"src", "w", "q", "qw"}}}
EvalCommits == IF ReportFine THEN Reportable
               ELSE {refs[n] : n \in {x \in DOMAIN refs : Kind(x) = "q"}}
Report(c, s) ==
  /\ ReportFine /\ Idle /\ c \in Reportable /\ Status(c) # s /\ (ReportOnce => c \notin DOMAIN bs)
  /\ bs' = Set(bs, c, s)
  /\ last' = <<"report", c, s>>
  /\ UNCHANGED <<G, refs, pr, child, greeted, job, lastmsg, cmd>>
\* coarse CI: every integration tip of p (source + w/), or every queue commit of p
PrTips(p) == {refs[n] : n \in {x \in DOMAIN refs : (Kind(x) \in {"src", "w"}) /\ x[2] = p}}
QwTips(p) == {refs[n] : n \in {x \in DOMAIN refs : Kind(x) = "qw" /\ x[2] = p}}
ReportSet(tag, p, S, s) ==
  /\ ~ ReportFine /\ Idle /\ S # {} /\ \E c \in S : Status(c) # s
  /\ ReportOnce => S \ DOMAIN bs # {}
  /\ bs' = [c \in DOMAIN bs \cup S |-> IF c \in S /\ (~ ReportOnce \/ c \notin DOMAIN bs) THEN s ELSE bs[c]]
  /\ last' = <<tag, p, s>>
  /\ UNCHANGED <<G, refs, pr, child, greeted, job, lastmsg, cmd>>

(***************************************************************************)
(* Bert-E                                                                  *)
(***************************************************************************)
\* effect of a push on the remote.  A ref is accepted iff it is new or a fast-forward and the
\* server does not reject it (rej).
Accepts(g, r, rej, n, c) == n \notin rej /\ (n \notin DOMAIN r \/ Leq(g, r[n], c))
ApplyPush(g, r, rej, op) ==
  LET ok == {n \in op.names : Accepts(g, r, rej, n, op.loc[n])}
  IN IF AtomicPush /\ ok # op.names THEN [refs |-> r, fail |-> TRUE]
     ELSE [refs |-> [n \in DOMAIN r \cup ok |-> IF n \in ok THEN op.loc[n] ELSE r[n]],
           fail |-> ok # op.names]
ApplyPushAll(g, r, rej, op) ==     \* git push --all --atomic [--prune]
  LET heads0 == DOMAIN op.loc
      heads == IF PushOnlyChanged /\ op.base # <<>>
               THEN {n \in heads0 : n \notin DOMAIN op.base \/ op.base[n] # op.loc[n]} ELSE heads0
      changed == {n \in heads : n \notin DOMAIN r \/ r[n] # op.loc[n]}
      gone == IF op.prune THEN {n \in DOMAIN r \ heads0 : ~ PruneOnlyOwned \/ Kind(n) \in {"w", "q", "qw"}} ELSE {}
      ok == (\A n \in changed : Accepts(g, r, rej, n, op.loc[n])) /\ (gone \cap rej = {})
  IN IF ok THEN [refs |-> [n \in heads \cup (DOMAIN r \ gone) |-> IF n \in heads THEN op.loc[n] ELSE r[n]],
                 fail |-> FALSE]
     ELSE [refs |-> r, fail |-> TRUE]
\* messages that are posted even when equal to the robot's previous message (exceptions.py)
AlwaysPost == {"integration_data_created", "partial_merge", "help", "reset_complete", "lossy_reset"}
\* st = [refs, child, greeted, lastmsg, fail]
OpEffect(g, st, rej, op) ==
  IF op.k = "push" THEN LET x == ApplyPush(g, st.refs, rej, op) IN [st EXCEPT !.refs = x.refs, !.fail = x.fail]
  ELSE IF op.k = "pushall" THEN LET x == ApplyPushAll(g, st.refs, rej, op) IN [st EXCEPT !.refs = x.refs, !.fail = x.fail]
  ELSE IF op.k = "tag" THEN [st EXCEPT !.refs = op.loc @@ @]
  ELSE IF op.k = "delref" THEN (IF op.names \cap rej = {} THEN [st EXCEPT !.refs = Del(st.refs, op.names)]
                                ELSE [st EXCEPT !.fail = TRUE])
  ELSE IF op.k = "comment" THEN [st EXCEPT !.greeted = IF op.code = "init" THEN @ \cup {op.p} ELSE @,
                                            !.lastmsg = [@ EXCEPT ![op.p] = op.code],
                                            \* commands are looked for after the robot's last message only
                                            !.cmd = [@ EXCEPT ![op.p] = ""]]
  ELSE IF op.k = "createpr" THEN [st EXCEPT !.child = @ \cup {<<op.p, op.b>>}]
  ELSE [st EXCEPT !.child = @ \ {<<op.p, op.b>>}]
RECURSIVE RunPlan(_, _, _)
RunPlan(g, st, plan) ==
  IF plan = <<>> \/ st.fail THEN st ELSE RunPlan(g, OpEffect(g, st, {}, Head(plan)), Tail(plan))
Cur == [refs |-> refs, child |-> child, greeted |-> greeted, lastmsg |-> lastmsg, cmd |-> cmd, fail |-> FALSE]
\* _send_comment: a message equal to the robot's last message on that pull request is not posted
RECURSIVE Dedupe(_, _)
Dedupe(plan, lm) ==
  IF plan = <<>> THEN <<>>
  ELSE LET op == Head(plan)
       IN IF op.k = "comment" /\ op.code = lm[op.p] /\ op.code \notin AlwaysPost
          THEN Dedupe(Tail(plan), lm)
          ELSE <<op>> \o Dedupe(Tail(plan), IF op.k = "comment" THEN [lm EXCEPT ![op.p] = op.code] ELSE lm)

\* a pull request whose source is contained in its destination is closed (MERGED) for good
Latch(g, r) == [p \in 1..NP |->
                  IF pr[p].st = "open" /\ SrcN(p) \in DOMAIN r /\ BN(pr[p].dst) \in DOMAIN r
                     /\ Leq(g, r[SrcN(p)], r[BN(pr[p].dst)])
                  THEN [pr[p] EXCEPT !.st = "merged"] ELSE pr[p]]
Begin(kind, arg, e) ==
  /\ G' = e.g
  /\ IF Atomic
     THEN LET st == RunPlan(e.g, Cur, Dedupe(e.plan, lastmsg))
          IN /\ refs' = st.refs /\ child' = st.child /\ greeted' = st.greeted /\ lastmsg' = st.lastmsg
             /\ cmd' = st.cmd
             /\ job' = NoJob
             /\ pr' = Latch(e.g, st.refs)
             /\ last' = <<"job", kind, arg, IF st.fail THEN "PushFailedException" ELSE e.status, e.pend>>
     ELSE /\ job' = [on |-> TRUE, kind |-> kind, arg |-> arg, plan |-> Dedupe(e.plan, lastmsg), status |-> e.status,
                     rej |-> {}, tp |-> 0]
          /\ last' = <<"job_begin", kind, arg, e.status, e.pend>>
          /\ UNCHANGED <<refs, child, greeted, pr, lastmsg, cmd>>
  /\ UNCHANGED bs

JobBegin ==
  /\ Idle
  /\ \/ \E p \in 1..NP : pr[p].st # "none" /\ Begin("EvalPR", p, EvalPrPlan(G, refs, p))
     \/ \E x \in child : Begin("EvalChild", x, EvalPrPlan(G, refs, x[1]))    \* event on an integration PR = event on its parent
     \/ \E c \in EvalCommits : Begin("EvalCommit", c, EvalCommitPlan(G, refs, c))
     \/ UseQueue /\ QRefs(refs) # {} /\ Begin("ForceMerge", 0, ForceMergePlan(G, refs))
     \/ UseQueue /\ QRefs(refs) # {} /\ Begin("RebuildQueues", 0, RebuildPlan(G, refs))
     \/ UseQueue /\ QRefs(refs) # {} /\ Begin("DeleteQueues", 0, DeleteQueuesPlan(G, refs))
     \/ Admin /\ \E b \in Branches \ {Hf} :
           \/ ~ IsLive(b) /\ Begin("CreateBranch", b, CreateBranchPlan(G, refs, b))
           \/ IsLive(b) /\ (b[1] = "dev" => Len(DevsFrom(1)) > 1) /\ Begin("DeleteBranch", b, DeleteBranchPlan(G, refs, b))

ApplyOp ==
  /\ job.on /\ job.plan # <<>>
  /\ LET st == OpEffect(G, Cur, job.rej, Head(job.plan))
     IN /\ refs' = st.refs /\ child' = st.child /\ greeted' = st.greeted /\ lastmsg' = st.lastmsg
        /\ cmd' = st.cmd
        /\ job' = IF st.fail THEN [job EXCEPT !.plan = <<>>, !.status = "PushFailedException", !.rej = {}]
                  ELSE [job EXCEPT !.plan = Tail(job.plan), !.rej = {}]
  /\ last' = <<"op", Head(job.plan).k>>
  /\ UNCHANGED <<G, bs, pr>>

JobEnd ==
  /\ job.on /\ job.plan = <<>>
  /\ job' = NoJob
  /\ pr' = Latch(G, refs)
  /\ last' = <<"job_end", job.kind, job.arg, job.status>>
  /\ UNCHANGED <<G, refs, child, bs, greeted, lastmsg, cmd>>

(* faults and third parties, only inside a job, at most one per job *)
Crash ==
  /\ Faults /\ "crash" \in FaultKinds /\ job.on /\ job.plan # <<>> /\ job.tp = 0
  /\ job' = [job EXCEPT !.plan = <<>>, !.status = "Crashed", !.tp = 1]
  /\ last' = <<"crash", Len(job.plan)>>
  /\ UNCHANGED <<G, refs, pr, child, bs, greeted, lastmsg, cmd>>
RejectRef(n) ==
  /\ Faults /\ "reject" \in FaultKinds /\ job.on /\ job.plan # <<>> /\ job.tp = 0
  /\ Head(job.plan).k \in {"push", "pushall", "delref"}
  /\ job' = [job EXCEPT !.rej = {n}, !.tp = 1]
  /\ last' = <<"reject", n>>
  /\ UNCHANGED <<G, refs, pr, child, bs, greeted, lastmsg, cmd>>
ThirdCreate ==
  /\ Faults /\ "third" \in FaultKinds /\ job.on /\ job.plan # <<>> /\ job.tp = 0 /\ ThirdN \notin DOMAIN refs
  /\ Head(job.plan).k \in {"push", "pushall", "delref"}
  /\ LET g2 == NewCommit(G, {refs[BN(LastDev)]}, "third")
     IN G' = g2 /\ refs' = Set(refs, ThirdN, g2.n)
  /\ job' = [job EXCEPT !.tp = 1]
  /\ last' = <<"third_create">>
  /\ UNCHANGED <<pr, child, bs, greeted, lastmsg, cmd>>
ThirdPushSrc(p) ==
  /\ Faults /\ "third" \in FaultKinds /\ job.on /\ job.plan # <<>> /\ job.tp = 0 /\ SrcN(p) \in DOMAIN refs
  /\ Head(job.plan).k \in {"push", "pushall", "delref"}
  /\ LET g2 == NewCommit(G, {refs[SrcN(p)]}, "third")
     IN G' = g2 /\ refs' = Set(refs, SrcN(p), g2.n)
  /\ job' = [job EXCEPT !.tp = 1]
  /\ last' = <<"third_push_src", p>>
  /\ UNCHANGED <<pr, child, bs, greeted, lastmsg, cmd>>

\* the owner rewinds the source branch by one commit while a job is running
ParentOf(g, c) == CHOOSE x \in g.anc[c] \ {c} : \A y \in g.anc[c] \ {c} : y <= x
ThirdRewindSrc(p) ==
  /\ Faults /\ "third" \in FaultKinds /\ job.on /\ job.plan # <<>> /\ job.tp = 0 /\ SrcN(p) \in DOMAIN refs
  /\ Head(job.plan).k \in {"push", "pushall", "delref"}
  /\ G.lab[refs[SrcN(p)]] = "user" /\ G.lab[ParentOf(G, refs[SrcN(p)])] = "user"
  /\ refs' = Set(refs, SrcN(p), ParentOf(G, refs[SrcN(p)]))
  /\ job' = [job EXCEPT !.tp = 1]
  /\ last' = <<"third_rewind_src", p>>
  /\ UNCHANGED <<G, pr, child, bs, greeted, lastmsg, cmd>>

Next ==
  \/ \E p \in 1..NP, d \in Branches : OpenPR(p, d)
  \/ \E p \in 1..NP : PushSrc(p) \/ Approve(p) \/ Decline(p) \/ Unapprove(p)
  \/ \E p \in 1..NP, o \in Opts : SetOpt(p, o)
  \/ \E p \in 1..NP, c \in Cmds : Command(p, c)
  \/ \E p \in 1..NP, q \in 1..NP : SetAfter(p, q)
  \/ \E p \in 1..NP : RestartSrc(p)
  \/ \E p \in 1..NP, b \in Branches : ManualW(p, b)
  \/ \E c \in 1..G.n, s \in RepStatuses : Report(c, s)
  \/ \E p \in 1..NP, s \in RepStatuses : ReportSet("report_pr", p, PrTips(p), s) \/ ReportSet("report_qw", p, QwTips(p), s)
  \/ JobBegin \/ ApplyOp \/ JobEnd
  \/ Crash \/ ThirdCreate
  \/ \E n \in DOMAIN refs : RejectRef(n)
  \/ \E p \in 1..NP : ThirdPushSrc(p) \/ ThirdRewindSrc(p)

(* projection of a state, compared with the real repository after every replayed step *)
Proj(g, r, prs, ch, b, l, lm) ==
  [last |-> l,
   msgs |-> {[p |-> p, code |-> lm[p]] : p \in 1..NP},
   refs |-> {[n |-> n, tip |-> r[n], atoms |-> {c \in g.anc[r[n]] : g.lab[c] # "merge"}] : n \in DOMAIN r},
   prs  |-> {[p |-> p, st |-> prs[p].st] : p \in 1..NP},
   kids |-> ch,
   bs   |-> {[c |-> c, s |-> b[c]] : c \in DOMAIN b},
   n    |-> g.n]
NoRep == [key |-> <<>>, n |-> 0]
NextJ == /\ Next
         /\ out' = IF EmitJson THEN ToJson(Proj(G', refs', pr', child', bs', last', lastmsg')) ELSE ""
         /\ rep' = IF ~ TrackRep THEN NoRep
                   ELSE IF last'[1] = "job"
                        THEN (IF rep.key = <<last'[2], last'[3]>> THEN [rep EXCEPT !.n = IF @ >= 4 THEN 4 ELSE @ + 1]
                              ELSE [key |-> <<last'[2], last'[3]>>, n |-> 1])
                        ELSE NoRep
Spec == Init /\ out = "" /\ rep = NoRep /\ [][NextJ]_vars

Bound == G.n <= MaxC /\ TLCGet("level") <= MaxLevel

(***************************************************************************)
(* Design-level properties                                                 *)
(***************************************************************************)
DestNames == {BN(b) : b \in Branches}
InclPairs == {x \in {<<Dev(v), Dev(u)>> : v \in 1..NV, u \in 1..NV} :
                 /\ x[1][2] < x[2][2] /\ IsLive(x[1]) /\ IsLive(x[2])
                 /\ ~ \E m \in (x[1][2] + 1)..(x[2][2] - 1) : IsLive(Dev(m))}
             \cup {<<Stab(v), Dev(v)>> : v \in StabV}
InclS == \A x \in InclPairs :
           (BN(x[1]) \in DOMAIN refs /\ BN(x[2]) \in DOMAIN refs) => Leq(G, refs[BN(x[1])], refs[BN(x[2])])
C01_Incl == Idle => InclS
UserCommitsOf(p) == {c \in 1..G.n : G.lab[c] = "user" /\ SrcN(p) \in DOMAIN refs /\ Leq(G, c, refs[SrcN(p)])
                                    /\ ~ \E b \in Branches : FALSE}
C02_AllOrNone ==
  \A p \in 1..NP : (pr[p].st # "none" /\ SrcN(p) \in DOMAIN refs /\ IsLive(pr[p].dst)) =>
     LET c == refs[SrcN(p)]
         T == Targets(pr[p].dst)
         on(b) == BN(b) \in DOMAIN refs /\ Leq(G, c, refs[BN(b)])
     IN (\E j \in DOMAIN T : on(T[j])) => (\A j \in DOMAIN T : on(T[j]))
C02_InclAlways == InclS
\* C03/C08 as action properties
DestMoved(n) == n \in DestNames /\ n \in DOMAIN refs /\ n \in DOMAIN refs' /\ refs'[n] # refs[n]
C03_Green == [][UseQueue => \A n \in DestNames : DestMoved(n) =>
                   \/ Status(refs'[n]) = "SUCCESSFUL"
                   \/ (IF Atomic THEN last'[1] = "job" /\ last'[2] = "ForceMerge" ELSE job.kind = "ForceMerge")
                   \/ \E p \in 1..NP : pr[p].byp /\ SrcN(p) \in DOMAIN refs /\ Leq(G', refs[SrcN(p)], refs'[n])
                                        /\ ~ Leq(G, refs[SrcN(p)], refs[n])]_vars
C08_FF == [][\A n \in DestNames : DestMoved(n) => Leq(G', refs[n], refs'[n])]_vars
C08_Foreign == [][(job.on /\ job'.on /\ refs' # refs /\ job'.tp = job.tp) =>
                    \A n \in DOMAIN refs : Kind(n) \in {"src", "third"} => (n \in DOMAIN refs' /\ refs'[n] = refs[n])]_vars
C05_Select == (UseQueue /\ Idle /\ QueuesCoherent(G, refs) /\ QBranches(refs) # {}) =>
                 SelectImpl(Queues(G, refs), FALSE) = SelectSpec(Queues(G, refs), FALSE)
HeldS(p) == pr[p].wait \/ (pr[p].after # 0 /\ pr[pr[p].after].st # "merged" /\ ~ MergedIn(G, refs, pr[p].after))
C12_Held == [][\A p \in 1..NP : (HeldS(p) /\ (pr[p].wait => pr'[p].wait) /\ pr[p].st = "open") =>
                 /\ {n \in DOMAIN refs' : Kind(n) \in {"w", "qw"} /\ n[2] = p} \subseteq {n \in DOMAIN refs : Kind(n) \in {"w", "qw"} /\ n[2] = p}
                 /\ \A n \in DestNames : DestMoved(n) =>
                       (SrcN(p) \in DOMAIN refs => (Leq(G', refs[SrcN(p)], refs'[n]) => Leq(G, refs[SrcN(p)], refs[n])))]_vars
\* a queue entry leaves the queue only by being merged into its destination, or by a queue reset job
JobKindNow == IF Atomic THEN (IF last'[1] = "job" THEN last'[2] ELSE "") ELSE job.kind
C20_EntryFate == [][~ Faults => \A n \in DOMAIN refs : (Kind(n) = "qw" /\ n \notin DOMAIN refs') =>
                      \/ JobKindNow \in {"RebuildQueues", "DeleteQueues", "CreateBranch"}
                      \/ BN(BranchOf(n)) \in DOMAIN refs' /\ Leq(G', refs[n], refs'[BN(BranchOf(n))])]_vars
JobStatusNow == IF Atomic THEN (IF last'[1] = "job" THEN last'[4] ELSE "") ELSE (IF job.on /\ job'.on /\ job'.tp = job.tp THEN job.status ELSE "")
JobArgNow == IF Atomic THEN last'[3] ELSE job.arg
JobPrNow == IF JobKindNow = "EvalChild" THEN JobArgNow[1] ELSE JobArgNow
\* the gates (C04, C06) at design level: a pull request enters the queue, or is merged directly, only when it is
\* approved and every one of its integration tips (source + w/) has a SUCCESSFUL build, or the build is bypassed
QueuedNow(p) == \E b \in Branches : QWN(p, b) \in DOMAIN refs' /\ QWN(p, b) \notin DOMAIN refs
DirectNow(p) == /\ JobKindNow \in {"EvalPR", "EvalChild", "EvalCommit"} /\ JobStatusNow = "SuccessMessage"
                /\ SrcN(p) \in DOMAIN refs /\ BN(pr[p].dst) \in DOMAIN refs /\ BN(pr[p].dst) \in DOMAIN refs'
                /\ ~ Leq(G, refs[SrcN(p)], refs[BN(pr[p].dst)]) /\ Leq(G', refs[SrcN(p)], refs'[BN(pr[p].dst)])
\* the tips that were gated are the integration tips as the job leaves them (an update may fast-forward a w/ branch to an
\* already built commit); after a direct merge the w/ branches are gone: only the source tip is looked at then
TipsGreen(p) == \A n \in DOMAIN refs' : (Kind(n) \in {"src", "w"} /\ n[2] = p /\ (Kind(n) = "w" => IsLive(BranchOf(n)))) =>
                   Status(refs'[n]) = "SUCCESSFUL"
C06_Gate == [][~ Faults => \A p \in 1..NP :
                 /\ QueuedNow(p) => (pr[p].byp \/ TipsGreen(p))
                 /\ DirectNow(p) => (pr[p].byp \/ Status(refs[SrcN(p)]) = "SUCCESSFUL")]_vars
C04_Gate == [][~ Faults => \A p \in 1..NP : (QueuedNow(p) \/ DirectNow(p)) => pr[p].appr]_vars
\* a commit a user made on an integration branch is never dropped by the robot, except on a declined pull
\* request, on an explicit force_reset, by the queue reset jobs, or when the pull request is merged from the queue (a commit
\* made on an integration branch AFTER the pull request entered the queue is not part of what is merged and
\* disappears with the integration branch: behaviour of the code, recorded in DESIGN.md as an observation)
ReachFrom(g, r, c) == \E n \in DOMAIN r : c \in g.anc[r[n]]
C15_ManualKept == [][\A c \in 1..G.n : (G.lab[c] = "manual" /\ ReachFrom(G, refs, c) /\ ~ ReachFrom(G', refs', c)) =>
                       \/ JobKindNow \in {"RebuildQueues", "DeleteQueues", "CreateBranch"}
                       \/ \E p \in 1..NP : /\ (pr[p].st = "declined" \/ cmd[p] = "force_reset" \/ JobStatusNow \in {"Merged", "SuccessMessage", "PartialMerge"})
                                            /\ \E n \in DOMAIN refs : Kind(n) = "w" /\ n[2] = p /\ c \in G.anc[refs[n]]]_vars
\* reset / force_reset touch only the integration branches and integration pull requests of their own pull request
C15_OwnOnly == [][(JobStatusNow \in {"ResetComplete", "LossyResetWarning"} /\ JobKindNow \in {"EvalPR", "EvalChild"}) =>
                    /\ DOMAIN refs' \subseteq DOMAIN refs
                    /\ \A n \in DOMAIN refs : (Kind(n) = "w" /\ n[2] = JobPrNow) \/ (n \in DOMAIN refs' /\ refs'[n] = refs[n])
                    /\ child' \subseteq child /\ \A x \in child \ child' : x[1] = JobPrNow]_vars
\* a refused reset deletes nothing
C15_LossyRefuses == [][JobStatusNow = "LossyResetWarning" => (refs' = refs /\ child' = child)]_vars
\* a command is executed at most once: whenever a reset plan has run, the command is no longer pending
C10_CmdConsumed == [][\A p \in 1..NP :
                        (/\ IF Atomic THEN last'[1] = "job" ELSE job.on /\ ~ job'.on
                         /\ (IF Atomic THEN last'[4] ELSE job.status) \in {"ResetComplete", "LossyResetWarning"}
                         /\ JobKindNow \in {"EvalPR", "EvalChild"} /\ JobPrNow = p) => cmd'[p] = ""]_vars
\* a destination branch disappears only by the delete_branch job, which refuses while the version has queued
\* pull requests and leaves an archive tag on the deleted tip
C20_DestDel == [][\A b \in Branches : (BN(b) \in DOMAIN refs /\ BN(b) \notin DOMAIN refs') =>
                    /\ JobKindNow = "DeleteBranch"
                    /\ ~ \E p \in 1..NP : QWN(p, b) \in DOMAIN refs
                    /\ TagN(b) \in DOMAIN refs' /\ refs'[TagN(b)] = refs[BN(b)]]_vars
\* C10 at design level (atomic jobs): when the same evaluation is delivered again and again with nothing else
\* happening, after the first delivery at most two more do something: the fourth and later deliveries change nothing (no ref moves, no pull request, no comment)
PlanOf(kind, arg) ==
  IF kind = "EvalPR" THEN EvalPrPlan(G, refs, arg)
  ELSE IF kind = "EvalChild" THEN EvalPrPlan(G, refs, arg[1])
  ELSE IF kind = "EvalCommit" THEN EvalCommitPlan(G, refs, arg)
  ELSE IF kind = "ForceMerge" THEN ForceMergePlan(G, refs)
  ELSE IF kind = "RebuildQueues" THEN RebuildPlan(G, refs)
  ELSE IF kind = "DeleteQueues" THEN DeleteQueuesPlan(G, refs)
  ELSE IF kind = "CreateBranch" THEN CreateBranchPlan(G, refs, arg)
  ELSE DeleteBranchPlan(G, refs, arg)
\* the job of this step posts a comment (a message equal to the previous one would not change lastmsg)
Posts(kind, arg) == LET pl == Dedupe(PlanOf(kind, arg).plan, lastmsg) IN \E j \in DOMAIN pl : pl[j].k = "comment"
C10_Converge == [][(TrackRep /\ Atomic /\ last'[1] = "job" /\ rep'.n >= 4) =>
                     (refs' = refs /\ child' = child /\ greeted' = greeted /\ pr' = pr /\ ~ Posts(last'[2], last'[3]))]_vars
\* a declined pull request is left alone (outside the queue: see the known finding for holds placed after queueing),
\* and the evaluation that answers PullRequestDeclined leaves none of its integration data of the present cascade
C12_Declined == [][\A p \in 1..NP : (pr[p].st = "declined" /\ pr'[p].st = "declined") =>
                     /\ {n \in DOMAIN refs' : Kind(n) \in {"w", "qw"} /\ n[2] = p} \subseteq {n \in DOMAIN refs : Kind(n) \in {"w", "qw"} /\ n[2] = p}
                     /\ \A n \in DestNames : DestMoved(n) =>
                           (SrcN(p) \in DOMAIN refs => (Leq(G', refs[SrcN(p)], refs'[n]) => Leq(G, refs[SrcN(p)], refs[n])))]_vars
JobEndsWith(status) == IF Atomic THEN last'[1] = "job" /\ last'[4] = status
                       ELSE job.on /\ ~ job'.on /\ job.status = status
C19_DeclineCleans == [][(JobEndsWith("PullRequestDeclined") /\ JobKindNow \in {"EvalPR", "EvalChild"}) =>
                          LET p == JobPrNow
                              T == Targets(pr[p].dst)
                          IN \A j \in DOMAIN T : WN(p, T[j]) \notin DOMAIN refs' /\ <<p, T[j]>> \notin child']_vars
C19_Children == \A x \in child : (IsLive(x[2]) /\ IsLive(pr[x[1]].dst)) => pr[x[1]].st # "none" /\ \E j \in 2..Len(Targets(pr[x[1]].dst)) : Targets(pr[x[1]].dst)[j] = x[2]
TypeOK == G.n >= NBase
=============================================================================
