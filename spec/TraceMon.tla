----------------------------- MODULE TraceMon -----------------------------
(***************************************************************************)
(* Trace validation of REAL executions of Bert-E against the property      *)
(* monitors of Monitors.tla.                                               *)
(*                                                                         *)
(* Input: an ndjson file (env TRACE_FILE), one observation per line, many  *)
(* traces per file (field tid).  The specification consumes one line per   *)
(* step, maintains the commit DAG (parent lists -> ancestor sets, computed *)
(* here) and the monitors' history variables, evaluates every clause of    *)
(* every property on every line and accumulates the failed clauses in      *)
(* `viol`, which is written to env VIOL_FILE when the last line has been   *)
(* consumed.  TraceAccepted (POSTCONDITION) checks that every line was      *)
(* consumed.                                                               *)
(***************************************************************************)
EXTENDS Monitors, Json, IOUtils, SequencesExt, Functions

Trace == ndJsonDeserialize(IOEnv.TRACE_FILE)

VARIABLES i,        \* next line to consume
          anc,      \* commit id -> set of ancestors
          com,      \* commit id -> [par, robot]
          h,        \* history variables of the monitors
          viol      \* set of <<tid, k, clause>>
vars == <<i, anc, com, h, viol>>

EmptyF == [x \in {} |-> {}]

H0 == [ inclBegin |-> TRUE,        \* Incl at the begin of the current job
        inclPrev  |-> TRUE,        \* Incl on the previous line
        srcTips   |-> EmptyF,      \* pr id -> set of commits that were its source tip
        srcHist   |-> EmptyF,      \* pr id -> commits ever reachable from its source tip
        everDest  |-> {},          \* commits that ever were on a destination branch
        begin     |-> [ev |-> "none"],   \* observation at job_begin
        wt        |-> {},          \* latest integration tips of the job's PR seen during the job
        rep       |-> 0,           \* consecutive identical evaluations without outside change
        lastJob   |-> <<"", 0>>,
        outc      |-> EmptyF,      \* <<pr, cmdclass>> -> number of evaluations with that outcome
        resetW    |-> EmptyF,      \* pr id -> w/ names that existed when its last reset completed
        faultSeen |-> FALSE ]      \* a fault or third-party step was injected earlier in this history

RECURSIVE AddAnc(_, _, _)
AddAnc(a, s, j) ==
  IF j > Len(s) THEN a
  ELSE LET c == s[j]
           up == {c.id} \cup UNION {a[c.par[q]] : q \in DOMAIN c.par}
       IN AddAnc(a @@ (c.id :> up), s, j + 1)
RECURSIVE AddCom(_, _, _)
AddCom(a, s, j) ==
  IF j > Len(s) THEN a
  ELSE AddCom(a @@ (s[j].id :> [par |-> s[j].par, robot |-> s[j].robot]), s, j + 1)

Upd(f, key, val) == IF key \in DOMAIN f THEN [f EXCEPT ![key] = val] ELSE f @@ (key :> val)
Get(f, key, dflt) == IF key \in DOMAIN f THEN f[key] ELSE dflt

SrcTipNow(o, p) == IF HasRef(o, p.src) THEN {RefOf(o, p.src).c} ELSE {}
\* a tip is followed from the moment it is the source tip while on NO target yet (the tip of a backport, already
\* merged into the later versions through another pull request, is not new work of this pull request)
FreshTip(o, a, p) == {c \in SrcTipNow(o, p) : c \in DOMAIN a /\ ~ \E t \in Targets(o, p) : t.c \in DOMAIN a /\ Leq(a, c, t.c)}

RECURSIVE FoldPrs(_, _, _, _)
\* srcTips / srcHist updated for every user PR of the observation
FoldPrs(f, S, o, a) ==
  IF S = {} THEN f
  ELSE LET p == CHOOSE x \in S : TRUE
           t == FreshTip(o, a, p)
       IN FoldPrs(Upd(f, p.id, Get(f, p.id, {}) \cup t), S \ {p}, o, a)
RECURSIVE FoldHist(_, _, _, _)
FoldHist(f, S, o, a) ==
  IF S = {} THEN f
  ELSE LET p == CHOOSE x \in S : TRUE
           t == SrcTipNow(o, p)
       IN FoldHist(Upd(f, p.id, Get(f, p.id, {}) \cup UNION {a[c] : c \in t}), S \ {p}, o, a)

JobPr(o) ==   \* the user pull request an EvalPR job is about (child PR -> parent)
  IF o.job.kind = "EvalPR" /\ HasPr(o, o.job.arg)
  THEN LET q == PrById(o, o.job.arg)
       IN IF q.author = "robot" /\ HasPr(o, q.parent) THEN {PrById(o, q.parent)}
          ELSE IF q.author = "robot" THEN {} ELSE {q}
  ELSE {}

CmdClass(code) ==
  IF code \in {"cmd:reset", "cmd:force_reset"} THEN "reset"
  ELSE IF code = "cmd:help" THEN "help"
  ELSE IF code = "cmd:status" THEN "status"
  ELSE IF code \in {"cmd:build", "cmd:retry", "cmd:clear"} THEN "notimpl"
  ELSE "none"
OutcomeClass(status) ==
  IF status \in {"ResetComplete", "LossyResetWarning"} THEN "reset"
  ELSE IF status = "HelpMessage" THEN "help"
  ELSE IF status = "StatusReport" THEN "status"
  ELSE IF status = "CommandNotImplemented" THEN "notimpl"
  ELSE "none"
CmdCount(p, cls) == Cardinality({j \in DOMAIN p.msgs : CmdClass(p.msgs[j].code) = cls})

PastIntegration == {"ApprovalRequired", "BuildNotStarted", "BuildInProgress", "BuildFailed",
                    "Queued", "SuccessMessage"}

(***************************************************************************)
(* The clauses.  Each yields the set of names of the clauses that FAIL on  *)
(* this line.  prev is the previous observation of the same trace, a/c the *)
(* updated DAG, hh the history BEFORE this line (begin = job_begin obs).   *)
(***************************************************************************)
LineClauses(prev, o, a, c, hh, srcTipsNow) ==
  LET bstep == BertEStep(o)
      faulted == o.job.kind # "" /\ o.job.faulted
  IN
  (IF hh.inclPrev /\ ~ Incl(o, a) THEN {"C02.incl"} ELSE {})
  \cup (IF ~ AllOrNone(o, a, srcTipsNow) THEN {"C02.allornone"} ELSE {})
  \cup (IF o.ev = "job_end" /\ ~ faulted /\ hh.inclBegin /\ ~ Incl(o, a) THEN {"C01.incl"} ELSE {})
  \cup (IF bstep /\ o.cfg.use_queue /\ ~ GreenAdvance(prev, o, a, srcTipsNow) THEN {"C03.green"} ELSE {})
  \cup (IF bstep /\ ~ FastForward(prev, o, a) THEN {"C08.ff"} ELSE {})
  \cup (IF bstep /\ ~ ForeignUntouched(prev, o) THEN {"C08.foreign"} ELSE {})
  \cup (IF bstep /\ ~ DestDeletedOnlyByJob(prev, o) THEN {"C08.destdel"} ELSE {})
  \cup (IF bstep /\ ~ NoLoss(o, a, hh.everDest) THEN {"C08.noloss"} ELSE {})
  \cup (IF bstep /\ hh.begin.ev = "job_begin" THEN HeldClauses(hh.begin, prev, o, a, srcTipsNow) ELSE {})
  \cup (IF ~ NoCommentOnForeign(o) THEN {"C12.nocomment"} ELSE {})
  \cup (IF o.ev = "check" /\ o.chk.kind \in {"recovery", "final"} /\ o.chk.dt # o.chk.ref THEN {"C02.recovery"} ELSE {})
  \cup (IF o.ev = "check" /\ o.chk.kind = "events" /\ o.chk.dt # o.chk.ref THEN {"C19.events"} ELSE {})
  \cup (IF o.ev = "check" /\ o.chk.kind = "fresh" /\ o.chk.dt # o.chk.ref THEN {"C10.fresh"} ELSE {})
  \cup (IF \E p \in Prs(o) :
             /\ HasPr(prev, p.id)
             /\ Len(p.msgs) > Len(PrById(prev, p.id).msgs)
             /\ Len(p.msgs) >= 2
             /\ LET m1 == p.msgs[Len(p.msgs) - 1]
                    m2 == p.msgs[Len(p.msgs)]
                IN m1.au = "robot" /\ m2.au = "robot" /\ m1.h = m2.h
        THEN {"C10.norepeat"} ELSE {})

JobEndClauses(o, a, c, hh) ==
  LET b == hh.begin
      st == o.job.status
      kind == o.job.kind
      faulted == o.job.faulted
      P == JobPr(o)
  IN
  IF b.ev # "job_begin" THEN {} ELSE
  (IF ~ OpenChildrenUnique(o) THEN {"C19.unique"} ELSE {})
  \cup (IF ~ ChildWellFormed(o) THEN {"C19.child"} ELSE {})
  \* ---- C19 decline / merge
  \cup (IF kind = "EvalPR" /\ st = "PullRequestDeclined" /\ ~ faulted /\ P # {} THEN
          LET p == CHOOSE x \in P : TRUE
              \* integration data of the present cascade (a delete_branch job may have removed a target since)
              openB == {q.id : q \in {x \in Children(b, p) : x.state = "OPEN" /\ HasRef(b, x.dst)}}
              declined == {q.id : q \in {x \in Prs(o) : HasPr(b, x.id) /\ PrById(b, x.id).state = "OPEN"
                                                      /\ x.state = "DECLINED"}}
              gone == {r.n : r \in Refs(b)} \ {r.n : r \in Refs(o)}
          IN (IF declined # openB THEN {"C19.decline.prs"} ELSE {})
             \cup (IF gone # {r.n : r \in {x \in WRefs(b, p) : DstOfW(b, x) # {}}} THEN {"C19.decline.refs"} ELSE {})
        ELSE {})
  \* a declined pull request that was evaluated (and is not held back otherwise) keeps no integration data
  \cup (IF kind = "EvalPR" /\ ~ faulted /\ P # {} /\ st \in {"PullRequestDeclined", "NothingToDo"} THEN
          LET p == CHOOSE x \in P : TRUE
          IN IF HasPr(b, p.id) /\ PrById(b, p.id).state = "DECLINED" /\ p.handled /\ ~ p.wait /\ ~ UnmetDep(o, p)
                /\ HasRef(b, p.dst)
                /\ ({x \in WRefs(o, p) : DstOfW(b, x) # {}} # {}
                    \/ \E q \in Children(o, p) : q.state = "OPEN" /\ HasRef(b, q.src) /\ HasRef(b, q.dst))
             THEN {"C19.decline.leftover"} ELSE {}
        ELSE {})
  \* (pull requests this job merged: the evaluated one, or queued ones; a pull request that merely became MERGED
  \* on the host because another one brought its commits in is not "merged by Bert-E")
  \cup (IF ~ faulted /\ \E p \in UserPrs(o) : HasPr(b, p.id) /\ PrById(b, p.id).state = "OPEN"
                                   /\ p.state = "MERGED" /\ WRefs(o, p) # {}
                                   /\ (p \in P \/ WasQueued(b, p))
        THEN {"C19.merge.refs"} ELSE {})
  \* ---- C20
  \cup (IF kind \in AdminKinds /\ ~ faulted /\ Refused(o) /\ ~ (SameRefs(b, o) /\ SameTags(b, o))
        THEN {"C20.refuse.untouched"} ELSE {})
  \cup (IF kind = "CreateBranch" /\ ~ faulted /\ ~ CreateOk(b, o, a, hh.inclBegin)
        THEN {"C20.create"} ELSE {})
  \cup (IF kind = "DeleteBranch" /\ ~ faulted /\ ~ DeleteOk(b, o) THEN {"C20.delete"} ELSE {})
  \cup (IF kind = "DeleteBranch" /\ ~ faulted /\ ~ DeleteRefusalJustified(b, o) THEN {"C20.delete.overrefuse"} ELSE {})
  \cup (IF kind \in {"DeleteQueues", "RebuildQueues"} /\ ~ OnlyQueuesChanged(b, o)
        THEN {"C20.queues.scope"} ELSE {})
  \cup (IF kind = "RebuildQueues" /\ ~ faulted /\ ~ hh.faultSeen /\ st = "JobSuccess" /\ ~ RebuildResubmits(b, o, a)
        THEN {"C20.rebuild.resubmit"} ELSE {})
  \* ---- C15
  \cup (IF kind = "EvalPR" /\ P # {} /\ ~ faulted /\ OutcomeClass(st) = "reset" THEN
          LET p == CHOOSE x \in P : TRUE
              pb == PrById(b, p.id)
              sh == Get(hh.srcHist, p.id, {})
          IN (IF st = "LossyResetWarning" /\ ~ (SameRefs(b, o) /\ PrStates(b) = PrStates(o))
              THEN {"C15.refuse.untouched"} ELSE {})
             \cup (IF st = "ResetComplete" /\ o.job.cmd = "cmd:reset" /\ Lossy(b, a, c, sh, pb)
                   THEN {"C15.lossy.notrefused"} ELSE {})
             \cup (IF ~ ResetScope(b, o, pb) THEN {"C15.scope"} ELSE {})
        ELSE {})
  \cup (IF kind = "EvalPR" /\ P # {} /\ ~ faulted /\ st \in PastIntegration THEN
          LET p == CHOOSE x \in P : TRUE
          IN IF p.id \in DOMAIN hh.resetW /\ ~ (hh.resetW[p.id] \subseteq Names(o) \cup
                   (IF st = "SuccessMessage" THEN hh.resetW[p.id] ELSE {}))
             THEN {"C15.rebuild"} ELSE {}
        ELSE {})
  \* ---- C10
  \cup (IF hh.rep >= 2 /\ hh.lastJob = <<kind, o.job.arg>> /\ ~ faulted
           /\ ~ (SameRefs(b, o) /\ SameHost(b, o))
        THEN {"C10.converge"} ELSE {})
  \cup (IF kind = "EvalPR" /\ P # {} /\ OutcomeClass(st) # "none" THEN
          LET p == CHOOSE x \in P : TRUE
              cls == OutcomeClass(st)
          IN IF Get(hh.outc, <<p.id, cls>>, 0) + 1 > CmdCount(p, cls)
             THEN {"C10.cmdonce"} ELSE {}
        ELSE {})
  \* ---- C05 at system level: the real queue merge took the longest all-green prefix
  \cup (IF st = "Merged" /\ ~ faulted /\ ~ hh.faultSeen /\ kind # "ForceMerge" /\ QW(b) # {}
           /\ ActuallyMerged(b, o) # ExpectedMerge(b, a)
        THEN {"C05.system"} ELSE {})
  \* ---- C06 (system half)
  \cup (IF kind = "EvalPR" /\ P # {} /\ ~ faulted /\ st \in {"Queued", "SuccessMessage"}
           /\ o.cfg.build_key # "" THEN
          LET p == CHOOSE x \in P : TRUE
              tips == SrcTipNow(b, p) \cup hh.wt
          IN IF ~ p.byp /\ ~ AllGreen(o, tips) THEN {"C06.gate"} ELSE {}
        ELSE {})
  \* ---- C12 lifted hold
  \cup (IF kind = "EvalPR" /\ P # {} /\ ~ faulted THEN
          LET p == CHOOSE x \in P : TRUE
          IN IF HasPr(b, p.id) /\ ~ Finished(b, PrById(b, p.id)) /\ HasRef(b, p.src) /\ HasRef(b, p.dst)
                /\ IntegRefs(b, p) \cap {r \in Refs(b) : r.kind = "qw"} = {}
                /\ st \in {"AfterPullRequest", "NotMyJob", "NothingToDo"}
             THEN {"C12.lifted"} ELSE {}
        ELSE {})

Init == /\ i = 1
        /\ anc = EmptyF
        /\ com = EmptyF
        /\ h = H0
        /\ viol = {}

Step ==
  /\ i <= Len(Trace)
  /\ LET o == Trace[i]
         fresh == i = 1 \/ Trace[i - 1].tid # o.tid
         a0 == IF fresh THEN EmptyF ELSE anc
         c0 == IF fresh THEN EmptyF ELSE com
         h0 == IF fresh THEN H0 ELSE h
         prev == IF fresh THEN o ELSE Trace[i - 1]
         a == AddAnc(a0, o.newc, 1)
         c == AddCom(c0, o.newc, 1)
         tipsNow == FoldPrs(h0.srcTips, UserPrs(o), o, a)
         histNow == FoldHist(h0.srcHist, UserPrs(o), o, a)
         bad == LineClauses(prev, o, a, c, h0, tipsNow)
                  \cup (IF o.ev = "job_end" THEN JobEndClauses(o, a, c, h0) ELSE {})
         P == JobPr(o)
         endj == o.ev = "job_end"
         \* an injected crash / refused ref / third party is a change outside Bert-E: the interrupted evaluation does not
         \* count as one of the "same evaluation again" deliveries of C10
         outsider == o.ev \in {"env", "third", "init"} \/ (endj /\ o.job.faulted)
         sameJob == h0.lastJob = <<o.job.kind, o.job.arg>>
         cls == OutcomeClass(o.job.status)
     IN /\ anc' = a
        /\ com' = c
        /\ viol' = viol \cup {<<o.tid, o.k, cl>> : cl \in bad}
        /\ h' = [ inclBegin |-> IF o.ev = "job_begin" THEN Incl(o, a) ELSE h0.inclBegin,
                  inclPrev  |-> Incl(o, a),
                  srcTips   |-> tipsNow,
                  srcHist   |-> histNow,
                  everDest  |-> h0.everDest \cup UNION {a[d.c] : d \in Dests(o)},
                  begin     |-> IF o.ev = "job_begin" THEN o
                                ELSE IF endj THEN [ev |-> "none"] ELSE h0.begin,
                  wt        |-> IF o.ev = "job_begin" \/ P = {} THEN {}
                                ELSE LET W == WRefs(o, CHOOSE x \in P : TRUE)
                                     IN IF W # {} THEN {r.c : r \in W} ELSE h0.wt,
                  rep       |-> IF outsider THEN 0
                                ELSE IF endj THEN (IF sameJob THEN h0.rep + 1 ELSE 1)
                                ELSE h0.rep,
                  lastJob   |-> IF outsider THEN <<"", 0>>
                                ELSE IF endj THEN <<o.job.kind, o.job.arg>> ELSE h0.lastJob,
                  outc      |-> IF endj /\ o.job.kind = "EvalPR" /\ P # {} /\ cls # "none"
                                THEN LET key == <<(CHOOSE x \in P : TRUE).id, cls>>
                                     IN Upd(h0.outc, key, Get(h0.outc, key, 0) + 1)
                                ELSE h0.outc,
                  faultSeen |-> h0.faultSeen \/ o.ev = "third" \/ (o.job.kind # "" /\ o.job.faulted),
                  resetW    |-> IF endj /\ o.job.kind = "EvalPR" /\ P # {}
                                THEN LET p == CHOOSE x \in P : TRUE
                                     IN IF o.job.status = "ResetComplete" /\ h0.begin.ev = "job_begin"
                                        THEN Upd(h0.resetW, p.id, {r.n : r \in WRefs(h0.begin, p)})
                                        ELSE [k \in DOMAIN h0.resetW \ {p.id} |-> h0.resetW[k]]
                                ELSE IF outsider THEN EmptyF ELSE h0.resetW ]
        /\ i' = i + 1

Finish ==
  /\ i = Len(Trace) + 1
  /\ JsonSerialize(IOEnv.VIOL_FILE, [n |-> Len(Trace), viol |-> SetToSeq(viol)])
  /\ i' = i + 1
  /\ UNCHANGED <<anc, com, h, viol>>

Next == Step \/ Finish
Spec == Init /\ [][Next]_vars

TraceAccepted == TLCGet("stats").diameter = Len(Trace) + 2
===========================================================================
