SPECIFICATION Spec
CONSTANTS
  NV = 3
  StabV = {}
  HasHf = FALSE
  Absent0 = {}
  Admin = FALSE
  TrackRep = FALSE
  AlwaysW = TRUE
  AlwaysPRs = TRUE
  Cmds = {}
  Rewrites = FALSE
  NP = 2
  UseQueue = TRUE
  SkipQueue = FALSE
  Faults = TRUE
  FaultKinds = {"crash"}
  MaxC = 40
  RepStatuses = {"SUCCESSFUL", "FAILED"}
  Atomic = FALSE
  ReportFine = FALSE
  AutoApprove = FALSE
  Opts = {"byp", "wait", "unwait", "nooct"}
  ReportOnce = FALSE
  MaxLevel = 100
  EmitJson = TRUE
  PruneOnlyOwned = FALSE
  PushOnlyChanged = FALSE
  AtomicPush = TRUE
  FixSelect = TRUE
  FixDirect = TRUE
CONSTRAINT Bound
VIEW View
CHECK_DEADLOCK FALSE
