SPECIFICATION Spec
CONSTANTS
  Commits = {"c1", "c2"}
  BuildKeys = {"k1", "k2"}
  States = {"SUCCESSFUL", "FAILED", "INPROGRESS"}
  CacheSize = 2
  MaxSteps = 5
  PollAllKeys = FALSE
  GuardedStore = FALSE
INVARIANT GreenNeverDowngraded
CHECK_DEADLOCK FALSE
