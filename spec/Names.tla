------------------------------- MODULE Names -------------------------------
(***************************************************************************)
(* C18 - the branch naming grammar of GitWaterFlow at TOKEN level: a name  *)
(* is a structure (prefix, version shape, label); the module gives its     *)
(* expected kind and parsed attributes and the constructors of the robot's *)
(* own names, and enumerates the bounded grammar.  harness/checks/c18.py   *)
(* renders the structures to strings and compares with branch_factory.     *)
(*                                                                         *)
(* Version shapes: a tuple of 1..4 naturals is well formed; "bad*" tokens  *)
(* stand for malformed versions.  A label is [key, tail]: key in           *)
(* {"none","upper","lower","digits"} (a ticket-like fragment at the start) *)
(* and tail an arbitrary rest token (possibly with slashes, dots, digits). *)
(***************************************************************************)
EXTENDS Naturals, Integers, Sequences, FiniteSets, TLC, Json, IOUtils, SequencesExt

FeaturePrefixes == {"improvement", "bugfix", "feature", "project", "documentation", "design",
                    "dependabot", "epic", "bug"}
OtherPrefixes == {"development", "stabilization", "hotfix", "release", "user", "w", "q", "qw",
                  "unknown", "bare"}
GoodVersions == {<<4>>, <<10, 0>>, <<4, 3>>, <<5, 1, 4>>, <<0, 0, 0>>, <<4, 3, 18, 2>>, <<12, 34, 56, 78>>}
\* malformed versions are coded as one-element tuples of negative numbers:
\* -1 empty, -2 trailing dot ("4.3."), -3 five numbers, -4 letters ("a.b"), -5 leading dot, -6 "v4.3"
BadVersions == {<<0 - 1>>, <<0 - 2>>, <<0 - 3>>, <<0 - 4>>, <<0 - 5>>, <<0 - 6>>}
BadEmpty == <<0 - 1>>
Versions == GoodVersions \cup BadVersions
IsGood(v) == v \in GoodVersions

Keys == {"none", "upper", "lower", "digits"}
Tails == {"", "t_word", "t_dash_word", "t_slash", "t_dots", "t_digits", "t_underscore", "t_robot_w",
          "t_robot_q", "t_version", "t_deep", "t_dash_digits"}
Labels == {l \in [key : Keys, tail : Tails] : ~ (l.key = "none" /\ l.tail \in {"", "t_dash_digits"})}

(* kind of "<prefix>/<label>" for the feature-like prefixes, user and legacy hotfix *)
KindOfLabelled(p) ==
  IF p \in FeaturePrefixes THEN "feature" ELSE IF p = "user" THEN "user"
  ELSE IF p = "hotfix" THEN "legacy_hotfix" ELSE "rejected"

(* kind of "<prefix>/<version>" *)
KindOfVersioned(p, v) ==
  IF ~ IsGood(v) THEN (IF p = "hotfix" /\ v # BadEmpty THEN "legacy_hotfix" ELSE "rejected")
  ELSE IF p = "development" THEN (IF Len(v) <= 2 THEN "development" ELSE "rejected")
  ELSE IF p = "stabilization" THEN (IF Len(v) = 3 THEN "stabilization" ELSE "rejected")
  ELSE IF p = "hotfix" THEN (IF Len(v) = 3 THEN "hotfix" ELSE "legacy_hotfix")
  ELSE IF p = "release" THEN (IF Len(v) = 2 THEN "release" ELSE "rejected")
  ELSE IF p = "q" THEN "queue"
  ELSE "rejected"

(* kind of "w/<version>/<src>" and "q/w/<id>/<version>/<src>", src = "<sp>/<label>" *)
KindOfRobot(p, v, sp) ==
  IF IsGood(v) /\ sp \in FeaturePrefixes THEN (IF p = "w" THEN "integration" ELSE "queue_integration")
  ELSE "rejected"

CanBeDestination(kind) == kind \in {"development", "stabilization", "hotfix"}
CascadeProducer(kind) == kind \in {"feature", "development", "stabilization"}

(* the structures of the bounded grammar *)
LabelledAll ==
  {[form |-> "labelled", p |-> p, v |-> <<0>>, sp |-> "", l |-> l, id |-> 0, kind |-> KindOfLabelled(p)] :
      p \in FeaturePrefixes \cup {"user", "hotfix", "unknown", "development", "release", "q", "w"}, l \in Labels}
\* under prefixes that only take versions a ticket-less label could itself be a version: leave those
\* to the "versioned" form
Labelled == {s \in LabelledAll : ~ (s.p \in {"development", "release", "q", "w"} /\ s.l.key = "none")}
Versioned ==
  {[form |-> "versioned", p |-> p, v |-> v, sp |-> "", l |-> [key |-> "none", tail |-> ""], id |-> 0,
    kind |-> KindOfVersioned(p, v)] :
      p \in {"development", "stabilization", "hotfix", "release", "q", "unknown", "bugfix", "user", "w"},
      v \in Versions}
RobotNames ==
  {[form |-> "robot", p |-> p, v |-> v, sp |-> sp, l |-> l, id |-> id, kind |-> KindOfRobot(p, v, sp)] :
      p \in {"w", "qw"}, v \in Versions,
      sp \in {"bugfix", "feature", "dependabot", "user", "development", "unknown"},
      l \in Labels, id \in {1, 42, 100000}}
Bare ==
  {[form |-> "bare", p |-> p, v |-> <<0>>, sp |-> "", l |-> [key |-> "none", tail |-> ""], id |-> 0,
    kind |-> "rejected"] : p \in FeaturePrefixes \cup OtherPrefixes}
Structs == Labelled \cup Versioned \cup RobotNames \cup Bare

\* a labelled name whose label happens to be a version is covered by the "versioned" form; the
\* labelled form with prefixes that only accept versions is rejected unless the label is a version.
Fix(s) ==
  IF s.form = "labelled" /\ s.p \in {"development", "release", "q", "w"} THEN [s EXCEPT !.kind = "rejected"]
  \* "hotfix/<x.y.z>" written as a label is the hotfix branch itself, not a legacy hotfix
  ELSE IF s.form = "labelled" /\ s.p = "hotfix" /\ s.l.key = "none" /\ s.l.tail = "t_version"
       THEN [s EXCEPT !.kind = "hotfix"]
  ELSE IF s.form = "versioned" /\ s.p = "bugfix"
       THEN [s EXCEPT !.kind = IF s.v = BadEmpty THEN "rejected" ELSE "feature"]
  ELSE IF s.form = "versioned" /\ s.p = "user"
       THEN [s EXCEPT !.kind = IF s.v = BadEmpty THEN "rejected" ELSE "user"]
  ELSE s

Out(s0) ==
  LET s == Fix(s0)
  IN [form |-> s.form, p |-> s.p, v |-> s.v, sp |-> s.sp, key |-> s.l.key, tail |-> s.l.tail, id |-> s.id,
      kind |-> s.kind, dest |-> CanBeDestination(s.kind), producer |-> CascadeProducer(s.kind)]

ASSUME ndJsonSerialize(IOEnv.OUT_FILE, SetToSeq({Out(s) : s \in Structs}))

VARIABLE x
Init == x = 0
Next == x' = x
Spec == Init /\ [][Next]_x
=============================================================================
