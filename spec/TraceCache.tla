----------------------------- MODULE TraceCache -----------------------------
(***************************************************************************)
(* Real sequences of host updates, webhook status events and polls (the    *)
(* real get_build_status of the git host clients and the real webhook      *)
(* handlers, bounded status cache) judged against StatusCache.tla.         *)
(* One ndjson line per event: [tid, n, ev, c, k, s] where s is the state   *)
(* set / delivered, or the ANSWER of the real poll.                        *)
(***************************************************************************)
EXTENDS StatusCache, Json, IOUtils, SequencesExt

Trace == ndJsonDeserialize(IOEnv.TRACE_FILE)
VARIABLES i, viol, div
tvars == <<i, host, cache, seen, viol, div>>

H0 == [x \in Commits \X BuildKeys |-> "NONE"]
C0 == [k \in BuildKeys |-> <<>>]
TInit == i = 1 /\ host = H0 /\ cache = C0 /\ seen = {} /\ viol = {} /\ div = {}
         /\ answer = [a |-> "", must |-> ""] /\ steps = 0

Step ==
  /\ i <= Len(Trace)
  /\ LET e == Trace[i]
         fresh == i = 1 \/ Trace[i - 1].tid # e.tid
         h0 == IF fresh THEN H0 ELSE host
         q0 == IF fresh THEN C0 ELSE cache
         s0 == IF fresh THEN {} ELSE seen
         c == e.c
         k == e.k
         modelAns == PollAnswer(q0[k], h0, c, k)
         must == MustAnswer(q0[k], h0, s0, c, k)
         q1 == IF e.ev = "webhook" THEN [q0 EXCEPT ![k] = WebhookCache(q0[k], c, e.s)]
               ELSE IF e.ev = "poll" THEN PollAll(q0, h0, c, k) ELSE q0
         sn == IF e.ev = "webhook" /\ e.s = "SUCCESSFUL" THEN s0 \cup {<<c, k>>}
               ELSE IF e.ev = "poll" THEN s0 \cup PollSees(q0, h0, c, k)
                                           \cup (IF e.s = "SUCCESSFUL" THEN {<<c, k>>} ELSE {})
               ELSE s0
     IN /\ host' = IF e.ev = "hostset" THEN [h0 EXCEPT ![<<c, k>>] = e.s] ELSE h0
        /\ cache' = q1
        /\ seen' = Keep(sn, q1)
        /\ viol' = viol \cup (IF e.ev = "poll" /\ e.s # must
                              THEN {<<e.tid, e.n, IF must = "SUCCESSFUL" THEN "C17.green_downgraded" ELSE "C17.not_host_value">>}
                              ELSE {})
        /\ div' = div \cup (IF e.ev = "poll" /\ e.s # modelAns THEN {<<e.tid, e.n, "answer differs from the model">>} ELSE {})
        /\ i' = i + 1
        /\ UNCHANGED <<answer, steps>>
Finish ==
  /\ i = Len(Trace) + 1
  /\ JsonSerialize(IOEnv.VIOL_FILE, [n |-> Len(Trace), viol |-> SetToSeq(viol), div |-> SetToSeq(div)])
  /\ i' = i + 1
  /\ UNCHANGED <<host, cache, seen, viol, div, answer, steps>>
TSpec == TInit /\ [][Step \/ Finish]_<<tvars, answer, steps>>
TraceAccepted == TLCGet("stats").diameter = Len(Trace) + 2
=============================================================================
