------------------------------ MODULE Cascade ------------------------------
(***************************************************************************)
(* C09 - target cascade, ignored branches and fix versions, written from   *)
(* the property statement.  TLC enumerates every (branch set, tag set,     *)
(* destination) of the bounded universe and writes the expected outcome;   *)
(* harness/checks/c09.py runs the real BranchCascade on each case, in      *)
(* several discovery orders.                                               *)
(*                                                                         *)
(* A branch is [k, maj, min, mic]: k in {"d","s","h"}; min = -1 for        *)
(* development/<major>; mic = -1 for development branches.                 *)
(* A tag is [maj, min, mic, hf, sfx]: hf = -1 when there is no fourth      *)
(* number; sfx = TRUE for pre-release (suffixed) tags, which never count.   *)
(***************************************************************************)
EXTENDS Naturals, Integers, Sequences, FiniteSets, TLC, Json, IOUtils, SequencesExt, FiniteSetsExt

CONSTANTS UB,        \* sequence of branches (the universe)
          UT,        \* sequence of tags (the universe)
          MaxB       \* maximal size of a branch set

Lt(a, b) == \/ a.maj < b.maj
            \/ a.maj = b.maj /\ a.min # -1 /\ (b.min = -1 \/ a.min < b.min)
SameLine(a, b) == a.maj = b.maj /\ a.min = b.min

Devs(B)  == {b \in B : b.k = "d"}
Stabs(B) == {b \in B : b.k = "s"}
Released(T) == {t \in T : ~ t.sfx}

(* ill-formed cascades, as the statement lists them *)
TwoStabs(B)      == \E s1, s2 \in Stabs(B) : s1 # s2 /\ SameLine(s1, s2)
StabWithoutDev(B) == \E s \in Stabs(B) : ~ \E d \in Devs(B) : SameLine(s, d)
StabReleased(B, T) == \E s \in Stabs(B) : \E t \in Released(T) : SameLine(s, t) /\ t.mic = s.mic
IllFormed(B, T) == TwoStabs(B) \/ StabWithoutDev(B) \/ StabReleased(B, T)

(* inputs on which the statement is silent (see DESIGN.md, C09 readings) *)
MaxMic(T, b) == Max({-1} \cup {t.mic : t \in {x \in Released(T) : SameLine(x, b)}})
LaterTagThanStab(B, T) == \E s \in Stabs(B) : \E t \in Released(T) : SameLine(s, t) /\ t.mic > s.mic
VersionMismatch(B, T) == \E s \in Stabs(B) : s.mic # MaxMic(T, s) + 1
HfBaseMissing(T, dst) == dst.k = "h" /\ ~ \E t \in Released(T) : SameLine(t, dst) /\ t.mic = dst.mic

DevSeq(S) == SetToSortSeq(S, Lt)
Targets(B, dst) ==
  IF dst.k = "h" THEN <<dst>>
  ELSE IF dst.k = "s" THEN <<dst>> \o DevSeq({d \in Devs(B) : SameLine(d, dst) \/ Lt(dst, d)})
  ELSE DevSeq({d \in Devs(B) : d = dst \/ Lt(dst, d)})
Ignored(B, dst) == {b \in Devs(B) \cup Stabs(B) : ~ \E j \in DOMAIN Targets(B, dst) : Targets(B, dst)[j] = b}

MaxHf(T, dst) == Max({-1} \cup {IF t.hf = -1 THEN 0 ELSE t.hf :
                                t \in {x \in Released(T) : SameLine(x, dst) /\ x.mic = dst.mic}})
LatestMinor(B, T, d) ==
  Max({-1} \cup {b.min : b \in {x \in Devs(B) : x.maj = d.maj /\ x.min # -1}}
           \cup {t.min : t \in {x \in Released(T) : x.maj = d.maj}})
FixOf(B, T, dst, t) ==       \* fix version contributed by target t (<<>> = contributes nothing)
  IF t.k = "h" THEN <<<<t.maj, t.min, t.mic, MaxHf(T, t) + 1>>>>
  ELSE IF t.k = "s" THEN <<<<t.maj, t.min, t.mic>>>>
  ELSE IF \E j \in DOMAIN Targets(B, dst) : Targets(B, dst)[j].k = "s" /\ SameLine(Targets(B, dst)[j], t)
       THEN <<>>                                       \* its targeted stabilization branch speaks for it
  ELSE IF t.min = -1 THEN <<<<t.maj, LatestMinor(B, T, t) + 1, 0>>>>
  ELSE LET off == IF \E s \in Stabs(B) : SameLine(s, t) THEN 2 ELSE 1
       IN <<<<t.maj, t.min, MaxMic(T, t) + off>>>>
RECURSIVE FixFrom(_, _, _, _)
FixFrom(B, T, dst, j) ==
  IF j > Len(Targets(B, dst)) THEN <<>>
  ELSE FixOf(B, T, dst, Targets(B, dst)[j]) \o FixFrom(B, T, dst, j + 1)
FixVersions(B, T, dst) == FixFrom(B, T, dst, 1)

Idx(b) == CHOOSE j \in DOMAIN UB : UB[j] = b
Case(B, T, dst) ==
  [bs   |-> SetToSortSeq({Idx(b) : b \in B}, <),
   ts   |-> SetToSortSeq({j \in DOMAIN UT : UT[j] \in T}, <),
   dst  |-> Idx(dst),
   rej  |-> IllFormed(B, T),
   dc   |-> LaterTagThanStab(B, T) \/ VersionMismatch(B, T) \/ HfBaseMissing(T, dst),   \* accept/reject and fix versions are don't-care
   tg   |-> [j \in DOMAIN Targets(B, dst) |-> Idx(Targets(B, dst)[j])],
   ig   |-> SetToSortSeq({Idx(b) : b \in Ignored(B, dst)}, <),
   fix  |-> FixVersions(B, T, dst)]

UBset == {UB[j] : j \in DOMAIN UB}
UTset == {UT[j] : j \in DOMAIN UT}
Shard  == atoi(IOEnv.SHARD)
NShard == atoi(IOEnv.NSHARD)
BranchSets == {B \in SUBSET UBset : B # {} /\ Cardinality(B) <= MaxB /\
                 (LET code == FoldSet(LAMBDA b, acc : acc + 7 * Idx(b), 3 * Cardinality(B), B) IN code % NShard = Shard)}
ASSUME ndJsonSerialize(IOEnv.OUT_FILE,
         SetToSeq({c \in UNION {{Case(B, T, d) : T \in SUBSET UTset, d \in B} : B \in BranchSets} : TRUE}))

VARIABLE x
Init == x = 0
Next == x' = x
Spec == Init /\ [][Next]_x
=============================================================================
