-------------------------------- MODULE Jira --------------------------------
(***************************************************************************)
(* C11 - the ticket gate, from the property statement.                     *)
(*                                                                         *)
(* Fix-version universe (indices into VU), with their shape:               *)
(*   "plain" x.y.z     "dot0" x.y.z.0 (counts as a plain version string)   *)
(*   "hf" x.y.z.n, n>0 "sfx" suffixed (x.y.z_hf7 ...): hf and sfx versions *)
(*   of the issue are ignored by the comparison.                           *)
(* Expected version sets come from the cascades of C09: a set of indices;  *)
(* a hotfix target expects exactly one "hf" version, which must be listed. *)
(***************************************************************************)
EXTENDS Naturals, Sequences, FiniteSets, TLC, Json, IOUtils, SequencesExt

VU == <<"plain", "plain", "plain", "sfx", "hf", "dot0">>      \* shapes of the 6 versions
Expected == <<{1, 2, 3}, {2, 3}, {3}, {5}>>                      \* target version sets
SrcKeys == {"none", "upper", "lower", "other"}                   \* ticket fragment of the source name
Issues == {"absent", "Bug", "Story", "Epic"}                     \* Epic: a type that is not configured
Bools == {TRUE, FALSE}
B2N(b) == IF b THEN 1 ELSE 0

IsHotfixTarget(E) == Cardinality(E) = 1 /\ \A i \in E : VU[i] = "hf"
Checked(F) == {i \in F : VU[i] \in {"plain", "dot0"}}

(* c = [configured, bypass, disableVer, typesConfigured], bypass covers the admin option, the      *)
(* per-author setting, the command line and a bypassed branch prefix                                *)
JiraGate(c, key, issue, F, E) ==
  IF c.bypass \/ ~ c.configured THEN "pass"
  ELSE IF key = "none" THEN "MissingJiraId"               \* every destination requires a ticket
  ELSE IF issue = "absent" THEN "JiraIssueNotFound"
  ELSE IF key = "other" THEN "IncorrectJiraProject"
  ELSE IF c.typesConfigured /\ issue = "Epic" THEN "IssueTypeNotSupported"
  ELSE IF c.disableVer THEN "pass"
  ELSE IF IsHotfixTarget(E) THEN (IF E \subseteq F THEN "pass" ELSE "IncorrectFixVersion")
  ELSE IF Checked(F) = E THEN "pass" ELSE "IncorrectFixVersion"

(* a bypassed branch prefix: the WHOLE prefix of the source branch is a member of bypass_prefixes.  The   *)
(* near misses (proper prefix, extension, other case, other prefix, one letter, suffix) are not members:  *)
(* every non-bypassed row is also executed with bypass_prefixes = NearMiss (driver: 'near-prefix').       *)
SrcPrefix == "bugfix"
NearMiss == {"bug", "bugfixes", "BUGFIX", "feature", "b", "ugfix"}
PrefixBypassed(prefix, L) == prefix \in L
ASSUME PrefixBypassed(SrcPrefix, {"bugfix"}) /\ ~ PrefixBypassed(SrcPrefix, NearMiss)

Configs == [configured : Bools, bypass : Bools, disableVer : Bools, typesConfigured : Bools]
RECURSIVE Pow(_, _)
Pow(b, e) == IF e = 0 THEN 1 ELSE b * Pow(b, e - 1)
FixSet(x) == {i \in 1..6 : (x \div Pow(2, i - 1)) % 2 = 1}
Lines ==
  {[configured |-> B2N(c.configured), bypass |-> B2N(c.bypass), disableVer |-> B2N(c.disableVer),
    types |-> B2N(c.typesConfigured), key |-> k, issue |-> is, e |-> e,
    res |-> [x \in 1..64 |-> JiraGate(c, k, is, FixSet(x - 1), Expected[e])]] :
      c \in Configs, k \in SrcKeys, is \in Issues, e \in 1..Len(Expected)}

ASSUME ndJsonSerialize(IOEnv.OUT_FILE, SetToSeq(Lines))

VARIABLE v
Init == v = 0
Next == v' = v
Spec == Init /\ [][Next]_v
=============================================================================
