------------------------------- MODULE Gates -------------------------------
(***************************************************************************)
(* The review gate (C04) and the build gate (C06), written clause by       *)
(* clause from the property statements, and their exhaustive enumeration.  *)
(*                                                                         *)
(* Users: 1 = author, 2 = peer1, 3 = peer2, 4 = leader, 5 = robot.         *)
(* A user's standing on the pull request is a digit 0..4:                  *)
(*   0 not a participant, 1 participant, 2 approved, 3 requested changes,  *)
(*   4 approved and requested changes.                                     *)
(* (Inputs are host-consistent: approvers and change requesters are        *)
(* participants.)                                                          *)
(***************************************************************************)
EXTENDS Naturals, Sequences, FiniteSets, TLC, Json, IOUtils, SequencesExt

CONSTANTS NU            \* number of users with a standing (the robot is user NU)

Author == 1
Robot == NU
RECURSIVE Pow(_, _)
Pow(b, e) == IF e = 0 THEN 1 ELSE b * Pow(b, e - 1)
Stand(x, u) == (x \div Pow(5, u - 1)) % 5
Part(x) == {u \in 1..NU : Stand(x, u) > 0}
Appr(x) == {u \in 1..NU : Stand(x, u) \in {2, 4}}
Chg(x)  == {u \in 1..NU : Stand(x, u) \in {3, 4}}

(***************************************************************************)
(* c = [peers, leaders, need, leadset, bypA, bypP, bypL, approve, unan]    *)
(* "A pull request passes the approval check iff all of these hold:"       *)
(***************************************************************************)
ApprovalGate(c, x) ==
  LET A == Appr(x) \cup (IF c.approve THEN {Author} ELSE {})   \* approved on the host or by comment
      \* the author approved, unless author approval is disabled or bypassed
      AuthorOK == ~ c.need \/ c.bypA \/ Author \in A
      \* approving reviewers other than the author reach the peer count, unless bypassed
      PeersOK == c.bypP \/ Cardinality(A \ {Author}) >= c.peers
      \* approving leaders (the author counting as one when a leader) reach the leader count
      LeadersOK == c.bypL \/ Cardinality(A \cap c.leadset)
                                + (IF Author \in c.leadset /\ Author \notin A THEN 1 ELSE 0) >= c.leaders
      \* with unanimity, every participant but the robot approved
      UnanOK == ~ c.unan \/ (Part(x) \ {Robot}) \subseteq A
      \* every review requirement above is waived (DESIGN.md C04, reading (ii))
      Waived == /\ (~ c.need \/ c.bypA \/ c.approve)
                /\ (c.bypP \/ c.peers = 0)
                /\ (c.bypL \/ c.leaders = 0)
                /\ ~ c.unan
      \* nobody has an outstanding change request, unless every requirement is waived
      NoChangeRequest == Waived \/ Chg(x) = {}
  IN AuthorOK /\ PeersOK /\ LeadersOK /\ UnanOK /\ NoChangeRequest

(***************************************************************************)
(* C06: the build gate over a vector of statuses (digits base 5:           *)
(* 0 SUCCESSFUL 1 INPROGRESS 2 NOTSTARTED 3 STOPPED 4 FAILED)              *)
(***************************************************************************)
Digit(x, j) == (x \div Pow(5, j - 1)) % 5
BuildGate(k, x, bypass, nokey) ==
  LET V == {Digit(x, j) : j \in 1..k}
  IN IF bypass \/ nokey THEN "pass"
     ELSE IF V \cap {3, 4} # {} THEN "failed"        \* the author is told the build failed
     ELSE IF V \cap {1, 2} # {} THEN "wait"          \* waits without commenting
     ELSE "pass"

(***************************************************************************)
(* Enumeration (one ASSUME per TLC process).  MODE selects the table.      *)
(***************************************************************************)
Bools == {TRUE, FALSE}
B2N(b) == IF b THEN 1 ELSE 0
MaxPeers == atoi(IOEnv.MAX_PEERS)
LeadSets == {{NU - 1}, {NU - 1, Author}, {}}
Configs ==
  {c \in [peers : 0..MaxPeers, leaders : 0..2, need : Bools, leadset : LeadSets,
          bypA : Bools, bypP : Bools, bypL : Bools, approve : Bools, unan : Bools] :
     c.leaders <= c.peers /\ c.leaders <= Cardinality(c.leadset)}
ApprovalLine(c) ==
  [peers |-> c.peers, leaders |-> c.leaders, need |-> B2N(c.need),
   leadset |-> SetToSortSeq(c.leadset, <), bypA |-> B2N(c.bypA), bypP |-> B2N(c.bypP),
   bypL |-> B2N(c.bypL), approve |-> B2N(c.approve), unan |-> B2N(c.unan),
   res |-> [x \in 1..Pow(5, NU) |-> B2N(ApprovalGate(c, x - 1))]]
BuildLines ==
  {[k |-> k, bypass |-> B2N(b), nokey |-> B2N(n),
    res |-> [x \in 1..Pow(5, k) |-> BuildGate(k, x - 1, b, n)]] : k \in 1..4, b \in Bools, n \in Bools}

Shard  == atoi(IOEnv.SHARD)
NShard == atoi(IOEnv.NSHARD)
Code(c) == c.peers + 4 * c.leaders + 12 * B2N(c.need) + 24 * Cardinality(c.leadset) + 72 * B2N(c.bypA)
           + 144 * B2N(c.bypP) + 288 * B2N(c.bypL) + 576 * B2N(c.approve) + 1152 * B2N(c.unan)
ASSUME IOEnv.MODE = "approval" =>
         ndJsonSerialize(IOEnv.OUT_FILE, SetToSeq({ApprovalLine(c) : c \in {d \in Configs : Code(d) % NShard = Shard}}))
ASSUME IOEnv.MODE = "build" => ndJsonSerialize(IOEnv.OUT_FILE, SetToSeq(BuildLines))

VARIABLE v
Init == v = 0
Next == v' = v
Spec == Init /\ [][Next]_v
=============================================================================
