SPECIFICATION Spec
POSTCONDITION TraceAccepted
CHECK_DEADLOCK FALSE
