---------------------------- MODULE BuildStatus ----------------------------
(***************************************************************************)
(* C17(a) - soundness of the state derived from GitHub workflow runs:      *)
(* it may be SUCCESSFUL only if, on at least one branch the commit was     *)
(* built on, every considered workflow (ignoring workflow_dispatch runs,   *)
(* keeping the best run of each workflow) concluded with success; never    *)
(* when there is no run.                                                   *)
(*                                                                         *)
(* A run is a number 0..71 = event (3) x status/conclusion (6) x workflow   *)
(* id (2) x head branch (2).  For every list of N-1 runs the module writes  *)
(* the vector, over the last run, of "may the result be SUCCESSFUL".       *)
(***************************************************************************)
EXTENDS Naturals, Sequences, FiniteSets, TLC, Json, IOUtils, SequencesExt, FiniteSetsExt

Events == <<"push", "pull_request", "workflow_dispatch">>
\* <<status, conclusion>>; conclusion "none" = null
SC == << <<"completed", "success">>, <<"completed", "failure">>, <<"completed", "cancelled">>,
         <<"in_progress", "none">>, <<"queued", "none">>, <<"pending", "none">> >>
Run(x) == [event |-> Events[(x % 3) + 1],
           status |-> SC[((x \div 3) % 6) + 1][1], conclusion |-> SC[((x \div 3) % 6) + 1][2],
           wf |-> ((x \div 18) % 2) + 1, branch |-> ((x \div 36) % 2) + 1]
Rank(c) == IF c = "success" THEN 4 ELSE IF c = "none" THEN 3 ELSE IF c = "failure" THEN 2 ELSE 1

(* considered runs: not workflow_dispatch; per workflow the best one (the first among equals) *)
Considered(rs) ==
  LET nd == SelectSeq(rs, LAMBDA r : r.event # "workflow_dispatch")
      Best(w) == LET mine == SelectSeq(nd, LAMBDA r : r.wf = w)
                     top == Max({Rank(mine[j].conclusion) : j \in DOMAIN mine})
                 IN mine[Min({j \in DOMAIN mine : Rank(mine[j].conclusion) = top})]
  IN {Best(w) : w \in {nd[j].wf : j \in DOMAIN nd}}
MaySucceed(rs) ==
  /\ rs # <<>>
  /\ \E b \in {1, 2} :
       LET K == {r \in Considered(rs) : r.branch = b}
       IN K # {} /\ \A r \in K : r.conclusion = "success"

N == atoi(IOEnv.NRUNS)
Shard == atoi(IOEnv.SHARD)
NShard == atoi(IOEnv.NSHARD)
RECURSIVE Decode(_, _)
Decode(code, n) == IF n = 0 THEN <<>> ELSE <<Run(code % 72)>> \o Decode(code \div 72, n - 1)
RECURSIVE Pow(_, _)
Pow(b, e) == IF e = 0 THEN 1 ELSE b * Pow(b, e - 1)
Line(p) == [prefix |-> p, n |-> N,
            res |-> [x \in 1..72 |-> IF MaySucceed(Decode(p, N - 1) \o <<Run(x - 1)>>) THEN 1 ELSE 0]]
ASSUME N >= 1 =>
  ndJsonSerialize(IOEnv.OUT_FILE, SetToSeq({Line(p) : p \in {q \in 0..(Pow(72, N - 1) - 1) : q % NShard = Shard}}))

VARIABLE v
Init == v = 0
Next == v' = v
Spec == Init /\ [][Next]_v
=============================================================================
