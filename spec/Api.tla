-------------------------------- MODULE Api --------------------------------
(***************************************************************************)
(* C14 - HTTP entry points enqueue work only for authorised callers.       *)
(*                                                                         *)
(* The table of entry points as the property states it, and the expected   *)
(* outcome of every request of the bounded matrix:                         *)
(*   "enqueue" - exactly one job of the given type is created, carrying    *)
(*               exactly the validated parameters of the request,          *)
(*   "read"    - a read-only endpoint answers, nothing is enqueued,        *)
(*   "refuse"  - an error status is returned and nothing is enqueued,      *)
(*   "ignore"  - webhook for an event that is not handled: OK, no job.     *)
(***************************************************************************)
EXTENDS Naturals, Sequences, FiniteSets, TLC, Json, IOUtils, SequencesExt

(* path classes, the HTTP method of the registered endpoint, whether it needs an admin session,   *)
(* and the job it creates ("" = read-only)                                                        *)
Endpoints ==
  { [path |-> "jobs",   method |-> "GET",    admin |-> FALSE, job |-> ""],
    [path |-> "job",    method |-> "GET",    admin |-> FALSE, job |-> ""],
    [path |-> "pr",     method |-> "POST",   admin |-> FALSE, job |-> "EvalPullRequestJob"],
    [path |-> "branch", method |-> "POST",   admin |-> TRUE,  job |-> "CreateBranchJob"],
    [path |-> "branch", method |-> "DELETE", admin |-> TRUE,  job |-> "DeleteBranchJob"],
    [path |-> "queues", method |-> "PATCH",  admin |-> TRUE,  job |-> "ForceMergeQueuesJob"],
    [path |-> "queues", method |-> "POST",   admin |-> FALSE, job |-> "RebuildQueuesJob"],
    [path |-> "queues", method |-> "DELETE", admin |-> TRUE,  job |-> "DeleteQueuesJob"] }
Methods == {"GET", "POST", "DELETE", "PATCH", "PUT"}
Sessions == {"none", "user", "admin"}

(* parameter classes per path: <<class, well-formed>> *)
Params(path) ==
  IF path = "pr" THEN {<<"id_1", TRUE>>, <<"id_42", TRUE>>, <<"id_0", FALSE>>, <<"id_neg", FALSE>>, <<"id_alpha", FALSE>>}
  ELSE IF path = "branch" THEN
       {<<"dev_xy", TRUE>>, <<"stab_xyz", TRUE>>, <<"hotfix_xyz", TRUE>>, <<"dev_x", FALSE>>, <<"dev_xyz", FALSE>>,
        <<"stab_xy", FALSE>>, <<"feature", FALSE>>, <<"dev_xy_trailing", FALSE>>, <<"release_xy", FALSE>>,
        <<"dev_xy_from_branch", TRUE>>, <<"dev_xy_from_sha", TRUE>>, <<"dev_xy_from_bad", FALSE>>,
        <<"dev_xy_from_dev_x", FALSE>>}
  ELSE IF path = "job" THEN {<<"unknown_id", TRUE>>}
  ELSE {<<"none", TRUE>>}
\* branch_from only matters to the create-branch job
WellFormed(path, method, prm) ==
  IF path = "branch" /\ method # "POST" /\ prm[1] \in {"dev_xy_from_bad", "dev_xy_from_dev_x"} THEN TRUE ELSE prm[2]

ApiOutcome(path, method, session, prm) ==
  LET E == {e \in Endpoints : e.path = path /\ e.method = method}
  IN IF E = {} THEN [class |-> "refuse", job |-> ""]
     ELSE LET e == CHOOSE x \in E : TRUE
              authorised == session # "none" /\ (e.admin => session = "admin")
          IN IF ~ authorised THEN [class |-> "refuse", job |-> ""]
             ELSE IF e.job = "" THEN [class |-> "read", job |-> ""]
             ELSE IF ~ WellFormed(path, method, prm) THEN [class |-> "refuse", job |-> ""]
             ELSE [class |-> "enqueue", job |-> e.job]
ApiRows ==
  {[kind |-> "api", path |-> p, method |-> m, session |-> s, param |-> prm[1],
    class |-> ApiOutcome(p, m, s, prm).class, job |-> ApiOutcome(p, m, s, prm).job] :
      p \in {"jobs", "job", "pr", "branch", "queues"}, m \in Methods, s \in Sessions, prm \in UNION {Params(q) : q \in {"jobs", "job", "pr", "branch", "queues"}}}
ApiMatrix == {r \in ApiRows : \E prm \in Params(r.path) : prm[1] = r.param}

(* management forms: same authorisation as their endpoint; a form callback itself never enqueues *)
Forms == {<<"EvalPullRequestForm", FALSE>>, <<"CreateBranchForm", TRUE>>, <<"DeleteBranchForm", TRUE>>,
          <<"ForceMergeQueuesForm", TRUE>>, <<"RebuildQueuesForm", FALSE>>, <<"DeleteQueuesForm", TRUE>>}
FormMatrix ==
  {[kind |-> "form", path |-> f[1], method |-> m, session |-> s, param |-> "none",
    class |-> IF m = "POST" /\ s # "none" /\ (f[2] => s = "admin") THEN "form_ok" ELSE "refuse", job |-> ""] :
      f \in Forms, m \in Methods, s \in Sessions}

(* webhooks *)
Creds == {"none", "wrong", "right"}
Repos == {"match", "other_owner", "other_slug"}
BbEvents == {<<"pullrequest:comment_created", "PullRequestJob">>, <<"pullrequest:updated", "PullRequestJob">>,
             <<"pullrequest:approved", "PullRequestJob">>,
             <<"repo:commit_status_created", "CommitJob">>, <<"repo:commit_status_updated", "CommitJob">>,
             <<"repo:commit_status_created_inprogress", "">>, <<"repo:push", "">>, <<"repo:fork", "">>}
GhEvents == {<<"pull_request:opened", "PullRequestJob">>, <<"pull_request:closed", "">>,
             <<"pull_request_review", "PullRequestJob">>, <<"status:success", "CommitJob">>,
             <<"status:pending", "">>, <<"push", "">>, <<"ping", "">>,
             \* a comment on a pull request / on a plain issue / on a pull request the host no longer knows
             <<"issue_comment:pr", "PullRequestJob">>, <<"issue_comment:issue", "">>, <<"issue_comment:gone", "">>,
             \* a check suite whose workflow runs are all completed / still running
             <<"check_suite:completed", "CommitJob">>, <<"check_suite:running", "">>}
HookOutcome(cred, repo, ev) ==
  IF cred # "right" \/ repo # "match" THEN [class |-> "refuse", job |-> ""]
  ELSE IF ev[2] = "" THEN [class |-> "ignore", job |-> ""]
  ELSE [class |-> "enqueue", job |-> ev[2]]
HookMatrix ==
  {[kind |-> "bitbucket", path |-> ev[1], method |-> "POST", session |-> c, param |-> r,
    class |-> HookOutcome(c, r, ev).class, job |-> HookOutcome(c, r, ev).job] : c \in Creds, r \in Repos, ev \in BbEvents}
  \cup
  {[kind |-> "github", path |-> ev[1], method |-> "POST", session |-> c, param |-> r,
    class |-> HookOutcome(c, r, ev).class, job |-> HookOutcome(c, r, ev).job] : c \in Creds, r \in Repos, ev \in GhEvents}

(* the login flow: how a session comes to be "user" or "admin".  /api/auth with a host token; the host  *)
(* answers with a profile.  A refused login must leave the session unauthenticated ("none"): the       *)
(* requests that follow on the same session are decided by ApiOutcome for the session the login left. *)
Profiles == {"notoken", "nouser", "member", "member_admin", "outsider", "outsider_admin", "noemail", "noemail_admin",
             "lookalike"}     \* lookalike: an address that merely CONTAINS the organisation (x@scality.com.evil.example)
InOrg(pf) == pf \in {"member", "member_admin"}
Listed(pf) == pf \in {"member_admin", "outsider_admin", "noemail_admin"}
LoginSession(pf, org) ==
  IF pf \in {"notoken", "nouser"} THEN "none"
  ELSE IF org = "set" /\ ~ InOrg(pf) THEN "none"
  ELSE IF Listed(pf) THEN "admin" ELSE "user"
FollowUps(session) ==
  [e \in Endpoints |-> ApiOutcome(e.path, e.method, session, CHOOSE prm \in Params(e.path) : prm[2])]
LoginMatrix ==
  {[kind |-> "login", path |-> pf, method |-> "GET", param |-> org, logout |-> lo,
    session |-> IF lo THEN "none" ELSE LoginSession(pf, org),
    class |-> IF LoginSession(pf, org) = "none" THEN "refuse" ELSE "login_ok", job |-> "",
    follow |-> LET ses == IF lo THEN "none" ELSE LoginSession(pf, org)
               IN SetToSeq({[path |-> e.path, method |-> e.method, class |-> FollowUps(ses)[e].class,
                             job |-> FollowUps(ses)[e].job] : e \in Endpoints})] :
      pf \in Profiles, org \in {"set", "unset"}, lo \in {TRUE, FALSE}}
LoginRows == {r \in LoginMatrix : r.logout => r.class = "login_ok"}     \* logout needs a session

ASSUME ndJsonSerialize(IOEnv.OUT_FILE, SetToSeq(ApiMatrix \cup FormMatrix \cup HookMatrix))
ASSUME ndJsonSerialize(IOEnv.OUT_FILE2, SetToSeq(LoginRows))

VARIABLE v
Init == v = 0
Next == v' = v
Spec == Init /\ [][Next]_v
=============================================================================
