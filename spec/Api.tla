-------------------------------- MODULE Api --------------------------------
(***************************************************************************)
(* C14 - HTTP entry points enqueue work only for authorised callers.       *)
(*                                                                         *)
(* The table of entry points as the property states it, and the expected   *)
(* outcome of every request of the bounded matrix:                         *)
(*   "enqueue" - exactly one job of the given type is created, carrying    *)
(*               exactly the validated parameters of the request,          *)
(*   "read"    - a read-only endpoint answers, nothing is enqueued,        *)
(*   "refuse"  - an error status is returned and nothing is enqueued,      *)
(*   "ignore"  - webhook for an event that is not handled: OK, no job.     *)
(***************************************************************************)
EXTENDS Naturals, Sequences, FiniteSets, TLC, Json, IOUtils, SequencesExt

(* path classes, the HTTP method of the registered endpoint, whether it needs an admin session,   *)
(* and the job it creates ("" = read-only)                                                        *)
Endpoints ==
  { [path |-> "jobs",   method |-> "GET",    admin |-> FALSE, job |-> ""],
    [path |-> "job",    method |-> "GET",    admin |-> FALSE, job |-> ""],
    [path |-> "pr",     method |-> "POST",   admin |-> FALSE, job |-> "EvalPullRequestJob"],
    [path |-> "branch", method |-> "POST",   admin |-> TRUE,  job |-> "CreateBranchJob"],
    [path |-> "branch", method |-> "DELETE", admin |-> TRUE,  job |-> "DeleteBranchJob"],
    [path |-> "queues", method |-> "PATCH",  admin |-> TRUE,  job |-> "ForceMergeQueuesJob"],
    [path |-> "queues", method |-> "POST",   admin |-> FALSE, job |-> "RebuildQueuesJob"],
    [path |-> "queues", method |-> "DELETE", admin |-> TRUE,  job |-> "DeleteQueuesJob"] }
Methods == {"GET", "POST", "DELETE", "PATCH", "PUT"}
Sessions == {"none", "user", "admin"}

(* parameter classes per path: <<class, well-formed>> *)
Params(path) ==
  IF path = "pr" THEN {<<"id_1", TRUE>>, <<"id_42", TRUE>>, <<"id_0", FALSE>>, <<"id_neg", FALSE>>, <<"id_alpha", FALSE>>}
  ELSE IF path = "branch" THEN
       {<<"dev_xy", TRUE>>, <<"stab_xyz", TRUE>>, <<"hotfix_xyz", TRUE>>, <<"dev_x", FALSE>>, <<"dev_xyz", FALSE>>,
        <<"stab_xy", FALSE>>, <<"feature", FALSE>>, <<"dev_xy_trailing", FALSE>>, <<"release_xy", FALSE>>,
        <<"dev_xy_from_branch", TRUE>>, <<"dev_xy_from_sha", TRUE>>, <<"dev_xy_from_bad", FALSE>>,
        <<"dev_xy_from_dev_x", FALSE>>}
  ELSE IF path = "job" THEN {<<"unknown_id", TRUE>>}
  ELSE {<<"none", TRUE>>}
\* branch_from only matters to the create-branch job
WellFormed(path, method, prm) ==
  IF path = "branch" /\ method # "POST" /\ prm[1] \in {"dev_xy_from_bad", "dev_xy_from_dev_x"} THEN TRUE ELSE prm[2]

ApiOutcome(path, method, session, prm) ==
  LET E == {e \in Endpoints : e.path = path /\ e.method = method}
  IN IF E = {} THEN [class |-> "refuse", job |-> ""]
     ELSE LET e == CHOOSE x \in E : TRUE
              authorised == session # "none" /\ (e.admin => session = "admin")
          IN IF ~ authorised THEN [class |-> "refuse", job |-> ""]
             ELSE IF e.job = "" THEN [class |-> "read", job |-> ""]
             ELSE IF ~ WellFormed(path, method, prm) THEN [class |-> "refuse", job |-> ""]
             ELSE [class |-> "enqueue", job |-> e.job]
ApiRows ==
  {[kind |-> "api", path |-> p, method |-> m, session |-> s, param |-> prm[1],
    class |-> ApiOutcome(p, m, s, prm).class, job |-> ApiOutcome(p, m, s, prm).job] :
      p \in {"jobs", "job", "pr", "branch", "queues"}, m \in Methods, s \in Sessions, prm \in UNION {Params(q) : q \in {"jobs", "job", "pr", "branch", "queues"}}}
ApiMatrix == {r \in ApiRows : \E prm \in Params(r.path) : prm[1] = r.param}

(* management forms: same authorisation as their endpoint; a form callback itself never enqueues *)
Forms == {<<"EvalPullRequestForm", FALSE>>, <<"CreateBranchForm", TRUE>>, <<"DeleteBranchForm", TRUE>>,
          <<"ForceMergeQueuesForm", TRUE>>, <<"RebuildQueuesForm", FALSE>>, <<"DeleteQueuesForm", TRUE>>}
FormMatrix ==
  {[kind |-> "form", path |-> f[1], method |-> m, session |-> s, param |-> "none",
    class |-> IF m = "POST" /\ s # "none" /\ (f[2] => s = "admin") THEN "form_ok" ELSE "refuse", job |-> ""] :
      f \in Forms, m \in Methods, s \in Sessions}

(* webhooks *)
Creds == {"none", "wrong", "right"}
Repos == {"match", "other_owner", "other_slug"}
BbEvents == {<<"pullrequest:comment_created", "PullRequestJob">>, <<"pullrequest:updated", "PullRequestJob">>,
             <<"pullrequest:approved", "PullRequestJob">>,
             <<"repo:commit_status_created", "CommitJob">>, <<"repo:commit_status_updated", "CommitJob">>,
             <<"repo:commit_status_created_inprogress", "">>, <<"repo:push", "">>, <<"repo:fork", "">>}
GhEvents == {<<"pull_request:opened", "PullRequestJob">>, <<"pull_request:closed", "">>,
             <<"pull_request_review", "PullRequestJob">>, <<"status:success", "CommitJob">>,
             <<"status:pending", "">>, <<"push", "">>, <<"ping", "">>,
             \* a comment on a pull request / on a plain issue / on a pull request the host no longer knows
             <<"issue_comment:pr", "PullRequestJob">>, <<"issue_comment:issue", "">>, <<"issue_comment:gone", "">>,
             \* a check suite whose workflow runs are all completed / still running
             <<"check_suite:completed", "CommitJob">>, <<"check_suite:running", "">>}
HookOutcome(cred, repo, ev) ==
  IF cred # "right" \/ repo # "match" THEN [class |-> "refuse", job |-> ""]
  ELSE IF ev[2] = "" THEN [class |-> "ignore", job |-> ""]
  ELSE [class |-> "enqueue", job |-> ev[2]]
HookMatrix ==
  {[kind |-> "bitbucket", path |-> ev[1], method |-> "POST", session |-> c, param |-> r,
    class |-> HookOutcome(c, r, ev).class, job |-> HookOutcome(c, r, ev).job] : c \in Creds, r \in Repos, ev \in BbEvents}
  \cup
  {[kind |-> "github", path |-> ev[1], method |-> "POST", session |-> c, param |-> r,
    class |-> HookOutcome(c, r, ev).class, job |-> HookOutcome(c, r, ev).job] : c \in Creds, r \in Repos, ev \in GhEvents}

ASSUME ndJsonSerialize(IOEnv.OUT_FILE, SetToSeq(ApiMatrix \cup FormMatrix \cup HookMatrix))

VARIABLE v
Init == v = 0
Next == v' = v
Spec == Init /\ [][Next]_v
=============================================================================
