----------------------------- MODULE Monitors -----------------------------
(***************************************************************************)
(* Property monitors for the system-level properties of Bert-E (C01 C02    *)
(* C03 C06 C08 C10 C12 C15 C19 C20), stated ONLY over what can be observed *)
(* from outside: the remote's refs and tags, the commit DAG (parent lists; *)
(* ancestry is computed here, in TLA+), the git host's pull requests,      *)
(* comments, reviews and build statuses, and the job record.               *)
(*                                                                         *)
(* The same operators are used                                             *)
(*   - by TraceMon.tla to judge observation streams recorded from the real *)
(*     implementation (one ndjson line per linearisation point), and       *)
(*   - by BertE.tla (the system machine S) as invariants / action          *)
(*     properties of the design.                                           *)
(*                                                                         *)
(* An observation o is a record (see harness/world.py, World.observe):     *)
(*   o.ev    in {"init","env","job_begin","third","op","job_end"}          *)
(*   o.refs  sequence of [n, kind, ver, pr, src, c]   (branch heads)       *)
(*   o.tags  sequence of [n, c]                                            *)
(*   o.prs   sequence of [id, src, dst, author, state, parent, title,      *)
(*            msgs (seq of [au, code, h]), appr, chg, byp, wait, after,    *)
(*            handled]                                                     *)
(*   o.builds sequence of [c, s]                                           *)
(*   o.job   [kind, arg, status, cmd, pending]                             *)
(*   o.cfg   [use_queue, ...]                                              *)
(* anc is a function commit id -> set of its ancestors (itself included),  *)
(* com a function commit id -> [par, robot].                               *)
(***************************************************************************)
EXTENDS Naturals, Integers, Sequences, FiniteSets, TLC

SeqToSet(s) == {s[j] : j \in DOMAIN s}
Refs(o)   == SeqToSet(o.refs)
Tags(o)   == SeqToSet(o.tags)
Prs(o)    == SeqToSet(o.prs)
Builds(o) == SeqToSet(o.builds)

DestKinds == {"development", "stabilization", "hotfix"}
IsDest(r) == r.kind \in DestKinds
Owned(r)  == r.kind \in {"w", "q", "qw", "tmp"}
Dests(o)  == {r \in Refs(o) : IsDest(r)}
Devs(o)   == {r \in Refs(o) : r.kind = "development"}
HasRef(o, n) == \E r \in Refs(o) : r.n = n
RefOf(o, n)  == CHOOSE r \in Refs(o) : r.n = n
Names(o)  == {r.n : r \in Refs(o)}
Leq(anc, a, b) == a \in anc[b]
Build(o, c) == IF \E b \in Builds(o) : b.c = c
               THEN (CHOOSE b \in Builds(o) : b.c = c).s ELSE "NOTSTARTED"
BertEStep(o) == o.ev \in {"op", "job_end"}

(* development/x.y ordered by (x,y); development/x after every development/x.*  *)
DevLt(v, w) == \/ v[1] < w[1]
               \/ /\ v[1] = w[1]
                  /\ v[2] # -1
                  /\ (w[2] = -1 \/ v[2] < w[2])
NextDev(o, a, b) == /\ a.kind = "development" /\ b.kind = "development"
                    /\ DevLt(a.ver, b.ver)
                    /\ ~ \E m \in Devs(o) : DevLt(a.ver, m.ver) /\ DevLt(m.ver, b.ver)
StabToDev(a, b) == /\ a.kind = "stabilization" /\ b.kind = "development"
                   /\ b.ver[1] = a.ver[1] /\ b.ver[2] = a.ver[2]
Succ(o, a, b) == NextDev(o, a, b) \/ StabToDev(a, b)

(***************************************************************************)
(* C01: forward-port inclusion                                             *)
(***************************************************************************)
Incl(o, anc) == \A a, b \in Dests(o) : Succ(o, a, b) => Leq(anc, a.c, b.c)

(* targets of a pull request, as C09 states them *)
Targets(o, p) ==
  IF ~ \E r \in Dests(o) : r.n = p.dst THEN {}
  ELSE LET d == RefOf(o, p.dst)
           v2 == <<d.ver[1], d.ver[2]>>
       IN IF d.kind = "hotfix" THEN {d}
          ELSE {d} \cup {r \in Devs(o) : r.ver = v2 \/ DevLt(v2, r.ver)}

UserPrs(o) == {p \in Prs(o) : p.author # "robot"}
PrById(o, id) == CHOOSE p \in Prs(o) : p.id = id
HasPr(o, id) == \E p \in Prs(o) : p.id = id

(***************************************************************************)
(* C02: all targets or none (h.srcTips: every commit that ever was the tip *)
(* of the PR's source branch while the PR existed)                         *)
(***************************************************************************)
Landed(o, anc, c, t) == Leq(anc, c, t.c)
AllOrNone(o, anc, srcTips) ==
  \A p \in UserPrs(o) :
    p.id \in DOMAIN srcTips =>
      \A c \in srcTips[p.id] :
        LET T == Targets(o, p)
        IN (\E t \in T : Landed(o, anc, c, t)) => (\A t \in T : Landed(o, anc, c, t))

(***************************************************************************)
(* C03: with queues on, a destination only advances to a green commit      *)
(***************************************************************************)
Moved(prev, o) == {d \in Dests(o) : HasRef(prev, d.n) /\ RefOf(prev, d.n).c # d.c}
MergedBy(prev, o, anc, srcTips, d) ==
  {p \in UserPrs(o) : p.id \in DOMAIN srcTips /\
      \E c \in srcTips[p.id] : Leq(anc, c, d.c) /\ ~ Leq(anc, c, RefOf(prev, d.n).c)}
GreenAdvance(prev, o, anc, srcTips) ==
  \A d \in Moved(prev, o) :
     \/ Build(o, d.c) = "SUCCESSFUL"
     \/ o.job.kind = "ForceMerge"
     \/ LET M == MergedBy(prev, o, anc, srcTips, d)
        IN M # {} /\ \A p \in M : p.byp

(***************************************************************************)
(* C08: never rewrites or deletes what it does not own                     *)
(***************************************************************************)
FastForward(prev, o, anc) ==
  \A d \in Dests(o) : HasRef(prev, d.n) => Leq(anc, RefOf(prev, d.n).c, d.c)
ForeignUntouched(prev, o) ==
  \A r \in Refs(prev) : (~ Owned(r) /\ ~ IsDest(r)) =>
        HasRef(o, r.n) /\ RefOf(o, r.n).c = r.c
DestDeletedOnlyByJob(prev, o) ==
  \A d \in Dests(prev) : ~ HasRef(o, d.n) =>
        /\ o.job.kind = "DeleteBranch"
        /\ o.job.arg = d.n
        /\ \E t \in Tags(o) : t.c = d.c
Reach(o, anc) == UNION {anc[x.c] : x \in {y \in Refs(o) \cup Tags(o) : y.c \in DOMAIN anc}}
NoLoss(o, anc, everDest) == everDest \subseteq Reach(o, anc)

(***************************************************************************)
(* C12: held-back, finished and foreign pull requests are left alone       *)
(***************************************************************************)
IsMerged(o, p) == p.state = "MERGED"
UnmetDep(o, p) ==
  \E j \in DOMAIN p.after :
     \/ ~ HasPr(o, p.after[j])
     \/ PrById(o, p.after[j]).state # "MERGED"
(* held back: a `wait` comment, an unmet dependency, declined, or not handled by Bert-E.        *)
(* (A pull request whose changes are already merged is "finished": nothing more can be merged   *)
(* from it; for it only the "no new integration branch / queue entry" half is asserted.)         *)
Held(o, p) == \/ p.wait
              \/ UnmetDep(o, p)
              \/ p.state = "DECLINED"
              \/ ~ p.handled
Finished(o, p) == Held(o, p) \/ p.state = "MERGED"
(* w/ branches are named after the source branch: when another pull request that is NOT finished shares the  *)
(* source branch (a backport of the same branch to an older version), they are that one's                    *)
SharedSrc(o, p) == \E q \in UserPrs(o) : q.id # p.id /\ q.src = p.src /\ ~ (Held(o, q) \/ q.state = "MERGED")
IntegRefs(o, p) == {r \in Refs(o) : (r.kind = "w" /\ r.src = p.src /\ ~ SharedSrc(o, p)) \/
                                     (r.kind = "qw" /\ r.pr = p.id)}
(* b is the observation at the begin of the running job: a hold counts when it was in place when   *)
(* the evaluation started (a hold placed by somebody while the job runs cannot be seen by it).      *)
HeldIntegrated(b, prev, o) ==    \* finished / held PRs that nevertheless got a new w/ or q/w branch
  {p \in UserPrs(o) : HasPr(prev, p.id) /\ HasPr(b, p.id) /\ Finished(b, PrById(b, p.id)) /\ Finished(o, p) /\
       ~ ({r.n : r \in IntegRefs(o, p)} \subseteq {r.n : r \in IntegRefs(prev, PrById(prev, p.id))})}
HeldMerged(b, prev, o, anc, srcTips) ==   \* held PRs whose changes nevertheless landed on a destination
  {p \in UserPrs(o) : HasPr(prev, p.id) /\ HasPr(b, p.id) /\ Held(b, PrById(b, p.id)) /\ Held(o, p) /\
       \E d \in Moved(prev, o) : p \in MergedBy(prev, o, anc, srcTips, d)}
WasQueued(b, p) == \E r \in Refs(b) : r.kind = "qw" /\ r.pr = p.id
HeldClauses(b, prev, o, anc, srcTips) ==
  LET M == HeldMerged(b, prev, o, anc, srcTips)
  IN (IF HeldIntegrated(b, prev, o) # {} THEN {"C12.held.integrated"} ELSE {})
     \cup (IF \E p \in M : ~ WasQueued(b, p) THEN {"C12.held.merged"} ELSE {})
     \cup (IF \E p \in M : WasQueued(b, p) THEN {"C12.held.merged_after_queued"} ELSE {})
NoCommentOnForeign(o) ==
  \A p \in UserPrs(o) : ~ p.handled => \A j \in DOMAIN p.msgs : p.msgs[j].au # "robot"

(***************************************************************************)
(* C19: integration branches and pull requests one-to-one with their PR    *)
(***************************************************************************)
Children(o, p) == {c \in Prs(o) : c.author = "robot" /\ c.parent = p.id}
OpenChildrenUnique(o) ==
  \A p \in UserPrs(o) :
    \A c1, c2 \in Children(o, p) :
       (c1.state = "OPEN" /\ c2.state = "OPEN" /\ c1.src = c2.src /\ c1.dst = c2.dst)
          => c1.id = c2.id
(* every open integration PR belongs to exactly one parent, is named after it and   *)
(* goes from w/<version of its destination>/<parent source> to a target of the parent *)
ChildWellFormed(o) ==
  \A c \in Prs(o) : (c.author = "robot" /\ c.state = "OPEN") =>
     /\ HasPr(o, c.parent)
     /\ LET p == PrById(o, c.parent)
        IN /\ p.author # "robot"
           /\ c.srck = "w" /\ c.srcsrc = p.src
           /\ c.titlepr = p.id /\ c.titledst = c.dst
(***************************************************************************)
(* Job-level clauses: b is the observation at the job's begin, o at its end *)
(***************************************************************************)
SameRefs(b, o) == {<<r.n, r.c>> : r \in Refs(b)} = {<<r.n, r.c>> : r \in Refs(o)}
SameTags(b, o) == {<<t.n, t.c>> : t \in Tags(b)} = {<<t.n, t.c>> : t \in Tags(o)}
PrStates(o)    == {<<p.id, p.state>> : p \in Prs(o)}
MsgCount(o)    == {<<p.id, Len(p.msgs)>> : p \in Prs(o)}
SameHost(b, o) == PrStates(b) = PrStates(o) /\ MsgCount(b) = MsgCount(o)
QueueKinds == {"q", "qw"}

(* ---- C20 -------------------------------------------------------------- *)
AdminKinds == {"CreateBranch", "DeleteBranch", "DeleteQueues", "RebuildQueues", "ForceMerge"}
Refused(o) == o.job.status \in {"JobFailure", "NothingToDo", "NotMyJob"}
QueuedIds(o) == {r.pr : r \in {x \in Refs(o) : x.kind = "qw"}}
Stabs(o) == {r \in Refs(o) : r.kind = "stabilization"}
CascadeWellFormed(o) ==
  /\ \A s1, s2 \in Stabs(o) : (s1.ver[1] = s2.ver[1] /\ s1.ver[2] = s2.ver[2]) => s1.n = s2.n
  /\ \A s \in Stabs(o) : \E d \in Devs(o) : StabToDev(s, d)
  /\ \A s \in Stabs(o) : ~ \E t \in Tags(o) : t.ver = s.ver
NewRefs(b, o) == {r \in Refs(o) : ~ HasRef(b, r.n)}
CreateOk(b, o, anc, inclBegin) ==
  LET N == {r \in NewRefs(b, o) : IsDest(r)}
  IN /\ inclBegin => Incl(o, anc)
     /\ CascadeWellFormed(b) => CascadeWellFormed(o)
     /\ \A n \in N :
          /\ ~ \E t \in Tags(b) : t.n = n.vs                      \* archived version
          /\ (o.cfg.use_queue /\ n.kind = "development" /\ QueuedIds(b) # {}) =>
                 ~ \E d \in Devs(b) : DevLt(n.ver, d.ver)         \* would need new w/ branches
DeleteOk(b, o) ==
  \A d \in Dests(b) : ~ HasRef(o, d.n) =>
     /\ \E t \in Tags(o) : t.c = d.c
     /\ ~ \E r \in Refs(b) : r.kind = "qw" /\
            (IF d.kind = "hotfix" THEN Len(r.ver) = 4 /\ SubSeq(r.ver, 1, 3) = d.ver
             ELSE r.ver = d.ver)
     /\ d.kind = "development" => ~ \E s \in Stabs(b) : StabToDev(s, d)
(* a delete_branch job that refuses a live destination has one of the stated reasons: queued pull    *)
(* requests on that version, a live stabilization branch of that development branch, an archive tag  *)
DeleteRefusalJustified(b, o) ==
  \A d \in Dests(b) : (o.job.status = "JobFailure" /\ o.job.arg = d.n) =>
     \/ \E r \in Refs(b) : r.kind = "qw" /\
            (IF d.kind = "hotfix" THEN Len(r.ver) = 4 /\ SubSeq(r.ver, 1, 3) = d.ver
             ELSE r.ver = d.ver)
     \/ d.kind = "development" /\ \E s \in Stabs(b) : StabToDev(s, d)
     \/ d.kind # "hotfix" /\ \E t \in Tags(b) : t.arch = d.ver
OnlyQueuesChanged(b, o) ==
  /\ \A r \in Refs(b) : r.kind \notin QueueKinds => (HasRef(o, r.n) /\ RefOf(o, r.n).c = r.c)
  /\ \A r \in NewRefs(b, o) : r.kind \in QueueKinds
  /\ SameTags(b, o)
(* a entered the queue before c: on some version both have a queue commit and a's is a strict *)
(* ancestor of c's                                                                           *)
EnteredBefore(b, anc, a, c) ==
  \E ra, rc \in {x \in Refs(b) : x.kind = "qw"} :
     ra.pr = a /\ rc.pr = c /\ ra.ver = rc.ver /\ ra.c # rc.c /\ Leq(anc, ra.c, rc.c)
RebuildResubmits(b, o, anc) ==
  LET P == o.job.pending
  IN /\ SeqToSet(P) = QueuedIds(b)
     /\ Len(P) = Cardinality(QueuedIds(b))
     /\ \A i, j \in DOMAIN P : i < j => ~ EnteredBefore(b, anc, P[j], P[i])

(* ---- C15 -------------------------------------------------------------- *)
WRefs(o, p) == {r \in Refs(o) : r.kind = "w" /\ r.src = p.src}
DstOfW(o, w) == {d \in Dests(o) : IF d.kind = "development" THEN d.ver = w.ver
                                  ELSE IF d.kind = "stabilization" THEN d.ver = w.ver
                                  ELSE FALSE}
OwnOfW(o, anc, srcHist, w) ==
  anc[w.c] \ (srcHist \cup UNION {anc[d.c] : d \in DstOfW(o, w)})
Lossy(o, anc, com, srcHist, p) ==
  \E w \in WRefs(o, p) :
    LET Own == OwnOfW(o, anc, srcHist, w)
    IN \E c \in Own : /\ ~ com[c].robot
                      /\ Len(com[c].par) = 1
                      /\ com[c].par[1] \in Own
ResetScope(b, o, p) ==
  /\ \A r \in Refs(b) : ~ (r.kind = "w" /\ r.src = p.src) => (HasRef(o, r.n) /\ RefOf(o, r.n).c = r.c)
  /\ NewRefs(b, o) = {}
  /\ SameTags(b, o)
  /\ \A q \in Prs(o) : (HasPr(b, q.id) /\ PrById(b, q.id).state # q.state) =>
        (q.author = "robot" /\ q.parent = p.id)

(* ---- C06 (system half) ----------------------------------------------- *)
AllGreen(o, S) == \A c \in S : Build(o, c) = "SUCCESSFUL"
(***************************************************************************)
(* C05 at system level: what a queue evaluation merged on a REAL           *)
(* repository is the longest all-green prefix of the queue (b = job begin, *)
(* o = job end of a queue evaluation that ended "Merged").                 *)
(***************************************************************************)
QW(b) == {r \in Refs(b) : r.kind = "qw"}
IsHfVer(v) == Len(v) = 4
QueuedOn(b, v) == {r.pr : r \in {x \in QW(b) : x.ver = v}}
QwOf(b, p, v) == CHOOSE r \in QW(b) : r.pr = p /\ r.ver = v
(* newest-first comparison of two queued PRs on one version *)
NotAfter(b, anc, v, x, y) == Leq(anc, QwOf(b, x, v).c, QwOf(b, y, v).c)
MainVersions(b) == {r.ver : r \in {x \in QW(b) : ~ IsHfVer(x.ver)}}
DevVersions(b) == {v \in MainVersions(b) : Len(v) = 2}
TopDev(b) == CHOOSE v \in DevVersions(b) : \A w \in DevVersions(b) : w = v \/ DevLt(w, v)
(* prefix of a queue (the PRs of version v, ordered by ancestry there) ending at x *)
PrefixUpTo(b, anc, v, x) == {y \in QueuedOn(b, v) : NotAfter(b, anc, v, y, x)}
GoodSet(b, anc, S, Vs) ==
  \A v \in Vs :
     LET on == S \cap QueuedOn(b, v)
     IN on # {} => \E n \in on : (\A y \in on : NotAfter(b, anc, v, y, n)) /\ Build(b, QwOf(b, n, v).c) = "SUCCESSFUL"
LongestGood(b, anc, v, Vs) ==       \* over the queue ordered on version v, judged on the versions Vs
  LET cands == {PrefixUpTo(b, anc, v, x) : x \in QueuedOn(b, v)}
      good == {S \in cands : GoodSet(b, anc, S, Vs)}
  IN IF good = {} THEN {} ELSE CHOOSE S \in good : \A T \in good : Cardinality(T) <= Cardinality(S)
ExpectedMerge(b, anc) ==
  (IF DevVersions(b) = {} THEN {} ELSE LongestGood(b, anc, TopDev(b), MainVersions(b)))
  \cup UNION {LongestGood(b, anc, h, {h}) : h \in {r.ver : r \in {x \in QW(b) : IsHfVer(x.ver)}}}
ActuallyMerged(b, o) == {p \in {r.pr : r \in QW(b)} : ~ \E r \in QW(o) : r.pr = p}
===========================================================================

