------------------------------ MODULE Secrets ------------------------------
(***************************************************************************)
(* C16 - the robot's credentials never leak.                               *)
(*                                                                         *)
(* A thin taint model whose practical role is the FAULT PLAN: which        *)
(* (job kind, command index, outcome, log level, password class) cells are *)
(* executed on the real code.  Values carry a taint in {"clean","masked",  *)
(* "secret"}; the remote URL is "secret"; simplecmd masks what it returns   *)
(* and what it puts into CommandError; sinks are log records, exception     *)
(* text (including chained exceptions printed by LOG.exception), job        *)
(* status/details, comments, stdout/stderr.  TLA+ cannot search byte        *)
(* strings: the verdict on the real code is a sentinel search in the        *)
(* captured sinks (harness/checks/c16.py); this module states the design    *)
(* claim and enumerates the plan.                                           *)
(***************************************************************************)
EXTENDS Naturals, Sequences, FiniteSets, TLC, Json, IOUtils, SequencesExt

CONSTANTS NCmd,        \* function job kind -> number of git commands of the baseline run
          ChainUnmasked, \* TRUE = the timeout path keeps the unmasked command in the exception chain (defect L11)
          PrintHeaders   \* TRUE = the GitHub App flow prints its Authorization header (defect L6)

Outcomes == {"fail", "hang"}
Levels == {"DEBUG", "INFO"}
PwClasses == {"plain", "url_special", "shell_special", "non_ascii"}
JobKinds == DOMAIN NCmd

(* taint reaching the sinks when command k of a job ends with outcome o *)
SinkTaint(o) ==
  [log |-> IF o = "hang" /\ ChainUnmasked THEN "secret" ELSE "masked",   \* LOG.exception prints the chain
   exc |-> "masked", details |-> "masked", comment |-> "clean", stdout |-> "clean"]
NoLeak == \A o \in Outcomes : \A s \in DOMAIN SinkTaint(o) : SinkTaint(o)[s] # "secret"
AppFlowClean == ~ PrintHeaders

PlanFor == UNION {{[job |-> j, k |-> k, outcome |-> o, level |-> l, pw |-> p] :
                      k \in 0..(NCmd[j] - 1), o \in Outcomes, l \in Levels, p \in PwClasses} : j \in JobKinds}
ASSUME ndJsonSerialize(IOEnv.OUT_FILE, SetToSeq(PlanFor))
ASSUME PrintT(<<"design claim NoLeak", NoLeak, "AppFlowClean", AppFlowClean>>)

VARIABLE v
Init == v = 0
Next == v' = v
Spec == Init /\ [][Next]_v
=============================================================================
