------------------------------- MODULE Grants -------------------------------
(***************************************************************************)
(* C07 - "... (or is granted by per-author settings ...)".                 *)
(*                                                                         *)
(* The per-author table of the settings file (pr_author_options) is an     *)
(* ordered list of <<author, set of bypass keys>>.  A key is granted to    *)
(* the author of a pull request exactly when the author's own entry lists  *)
(* it - whatever the other entries say and in whatever order the entries   *)
(* are written.  Every table of 1..3 entries over three names x every      *)
(* subset of three keys is enumerated; the driver maps the three abstract  *)
(* keys onto the seven real bypass_* keys by rotation.                     *)
(***************************************************************************)
EXTENDS Naturals, Sequences, FiniteSets, TLC, Json, IOUtils, SequencesExt

Names == {"aaa_first", "author", "zzz_last"}
Keys == 1..3
Entries == [name : Names, keys : SUBSET Keys]
Injective(t) == \A i, j \in 1..Len(t) : t[i].name = t[j].name => i = j
Tables == {t \in UNION {[1..n -> Entries] : n \in 1..3} : Injective(t)}

Granted(t, who) == UNION {t[i].keys : i \in {j \in 1..Len(t) : t[j].name = who}}
Authors == Names \cup {"nobody"}                 \* "nobody": an author without an entry
Rows == {[names |-> [i \in 1..Len(t) |-> t[i].name],
          keys |-> [i \in 1..Len(t) |-> SetToSortSeq(t[i].keys, <)],
          granted |-> [w \in Authors |-> SetToSortSeq(Granted(t, w), <)]] : t \in Tables}

ASSUME \A t \in Tables : Granted(t, "nobody") = {}
ASSUME ndJsonSerialize(IOEnv.OUT_FILE, SetToSeq(Rows))

VARIABLE v
Init == v = 0
Next == v' = v
Spec == Init /\ [][Next]_v
=============================================================================
