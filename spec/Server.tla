------------------------------- MODULE Server -------------------------------
(***************************************************************************)
(* T - the threaded dispatcher of Bert-E (bert_e/bert_e.py: BertE.put_job  *)
(* called by the Flask request threads, BertE.process_task called in a     *)
(* loop by the single worker thread), at source-line granularity: one      *)
(* action per line that touches shared state.                              *)
(*                                                                         *)
(*   put_job:      HCheck  `if job not in self.task_queue.queue:`          *)
(*                 HPut    `self.task_queue.put(job)`                      *)
(*                 HSkip   (the else branch: the job is dropped)           *)
(*   process_task: WGet    `job = self.status['current job'] = queue.get()`*)
(*                 WRun    `self.process(job)` with any outcome            *)
(*                 WAppend `self.tasks_done.appendleft(job)`               *)
(*                 WClear  `self.status.pop('current job')`                *)
(*                                                                         *)
(* A job is identified by its key (pull request id / commit sha): equal    *)
(* keys = equal jobs (Job.__eq__).  Ghost variable pending[k]: a request   *)
(* for key k has been accepted and no evaluation of k has STARTED since    *)
(* (set when put_job is entered, cleared when the worker dequeues a job    *)
(* for k).  C13: at quiescence nothing is pending.                         *)
(***************************************************************************)
EXTENDS Naturals, Sequences, FiniteSets, TLC

CONSTANTS Hooks,          \* request threads
          Keys,           \* job keys
          NEv,            \* events delivered by each hook
          Outcomes,       \* {"silent","template","internal","arbitrary"}
          DedupRunning    \* FALSE = the code; TRUE = also drop a job equal to the running one (a broken variant)

VARIABLES queue,    \* task_queue.queue: sequence of keys
          current,  \* status['current job']: a key or "none"
          done,     \* tasks_done[0]: the most recently finished job [k, status] (older entries do not matter)
          hpc,      \* per hook: "idle" | "check" | "put" | "skip" | "finished"
          hkey,     \* per hook: key of the request being handled
          hleft,    \* per hook: events still to deliver
          wpc,      \* worker: "get" | "run" | "append" | "clear"
          wjob,     \* worker: [k, status] of the job in hand
          pending   \* ghost
vars == <<queue, current, done, hpc, hkey, hleft, wpc, wjob, pending>>

InQueue(k) == \E i \in DOMAIN queue : queue[i] = k

Init == /\ queue = <<>> /\ current = "none" /\ done = [k |-> "none", status |-> ""]
        /\ hpc = [h \in Hooks |-> "idle"] /\ hkey = [h \in Hooks |-> CHOOSE k \in Keys : TRUE]
        /\ hleft = [h \in Hooks |-> NEv]
        /\ wpc = "get" /\ wjob = [k |-> "none", status |-> ""]
        /\ pending = [k \in Keys |-> FALSE]

(* a request for key k is accepted: put_job is entered *)
HEnter(h, k) ==
  /\ hpc[h] = "idle" /\ hleft[h] > 0
  /\ hpc' = [hpc EXCEPT ![h] = "check"]
  /\ hkey' = [hkey EXCEPT ![h] = k]
  /\ hleft' = [hleft EXCEPT ![h] = @ - 1]
  /\ pending' = [pending EXCEPT ![k] = TRUE]
  /\ UNCHANGED <<queue, current, done, wpc, wjob>>
HCheck(h) ==
  /\ hpc[h] = "check"
  /\ LET present == InQueue(hkey[h]) \/ (DedupRunning /\ current = hkey[h])
     IN hpc' = [hpc EXCEPT ![h] = IF present THEN "skip" ELSE "put"]
  /\ UNCHANGED <<queue, current, done, hkey, hleft, wpc, wjob, pending>>
HPut(h) ==
  /\ hpc[h] = "put"
  /\ queue' = Append(queue, hkey[h])
  /\ hpc' = [hpc EXCEPT ![h] = IF hleft[h] > 0 THEN "idle" ELSE "finished"]
  /\ UNCHANGED <<current, done, hkey, hleft, wpc, wjob, pending>>
HSkip(h) ==
  /\ hpc[h] = "skip"
  /\ hpc' = [hpc EXCEPT ![h] = IF hleft[h] > 0 THEN "idle" ELSE "finished"]
  /\ UNCHANGED <<queue, current, done, hkey, hleft, wpc, wjob, pending>>

WGet ==
  /\ wpc = "get" /\ queue # <<>>
  /\ wjob' = [k |-> Head(queue), status |-> ""]
  /\ current' = Head(queue)
  /\ queue' = Tail(queue)
  /\ pending' = [pending EXCEPT ![Head(queue)] = FALSE]     \* an evaluation of this key starts now
  /\ wpc' = "run"
  /\ UNCHANGED <<done, hpc, hkey, hleft>>
WRun(o) ==
  /\ wpc = "run"
  /\ wjob' = [wjob EXCEPT !.status = o]
  /\ wpc' = "append"
  /\ UNCHANGED <<queue, current, done, hpc, hkey, hleft, pending>>
WAppend ==
  /\ wpc = "append"
  /\ done' = wjob
  /\ wpc' = "clear"
  /\ UNCHANGED <<queue, current, hpc, hkey, hleft, wjob, pending>>
WClear ==
  /\ wpc = "clear"
  /\ current' = "none"
  /\ wpc' = "get"
  /\ UNCHANGED <<queue, done, hpc, hkey, hleft, wjob, pending>>

Next == \/ \E h \in Hooks, k \in Keys : HEnter(h, k)
        \/ \E h \in Hooks : HCheck(h) \/ HPut(h) \/ HSkip(h)
        \/ WGet \/ WAppend \/ WClear
        \/ \E o \in Outcomes : WRun(o)
Worker == WGet \/ WAppend \/ WClear \/ \E o \in Outcomes : WRun(o)
HookSteps == \E h \in Hooks : HCheck(h) \/ HPut(h) \/ HSkip(h)
Spec == Init /\ [][Next]_vars /\ WF_vars(Worker) /\ WF_vars(HookSteps)

Quiescent == (\A h \in Hooks : hpc[h] = "finished") /\ queue = <<>> /\ wpc = "get"
NoLostEvent == Quiescent => \A k \in Keys : ~ pending[k]
MarkerCleared == wpc = "get" => current = "none"
DoneRecorded == wpc = "get" => (wjob.k = "none" \/ (done = wjob /\ wjob.status # ""))
EventuallyStarted == \A k \in Keys : pending[k] ~> ~ pending[k]
=============================================================================
