SPECIFICATION Spec
CONSTANTS
  NV = 3
  StabV = {}
  HasHf = FALSE
  Absent0 = {}
  Admin = FALSE
  TrackRep = FALSE
  AlwaysW = TRUE
  AlwaysPRs = TRUE
  Cmds = {}
  Rewrites = FALSE
  NP = 2
  UseQueue = TRUE
  SkipQueue = FALSE
  Faults = FALSE
  FaultKinds = {"crash", "reject", "third"}
  MaxC = 11
  RepStatuses = {"SUCCESSFUL", "FAILED"}
  Atomic = TRUE
  ReportFine = FALSE
  AutoApprove = TRUE
  Opts = {}
  ReportOnce = TRUE
  MaxLevel = 11
  EmitJson = FALSE
  PruneOnlyOwned = FALSE
  PushOnlyChanged = FALSE
  AtomicPush = TRUE
  FixSelect = TRUE
  FixDirect = TRUE
CONSTRAINT Bound
VIEW View
INVARIANT C01_Incl
INVARIANT C02_AllOrNone
INVARIANT C05_Select
INVARIANT C19_Children
PROPERTY C03_Green
PROPERTY C08_FF
PROPERTY C08_Foreign
PROPERTY C12_Held
PROPERTY C20_EntryFate
PROPERTY C19_DeclineCleans
PROPERTY C06_Gate
PROPERTY C04_Gate
CHECK_DEADLOCK FALSE
