---------------------------- MODULE TraceServer ----------------------------
(***************************************************************************)
(* Trace validation of REAL executions of BertE.put_job / process_task     *)
(* (run under the deterministic line scheduler of harness/linesched.py)    *)
(* against Server.tla.                                                     *)
(*                                                                         *)
(* One ndjson line per event, many executions per file (field tid):        *)
(*   enter(h,k) put(h) drop(h) check(h) get status(o) append clear         *)
(*   quiescent worker_died ; every line carries the real shared state:     *)
(*   q (keys in task_queue.queue), cur (key of status['current job'] or    *)
(*   "none"), d0 ([k,status] of tasks_done[0] or none).                    *)
(* The module steps the Server state machine (same transition rules as     *)
(* Server.tla: HEnter HCheck HPut HSkip WGet WRun WAppend WClear) along the *)
(* events, compares its state with the logged one (conformance -> div) and *)
(* evaluates the properties of C13 on the real events (-> viol).           *)
(***************************************************************************)
EXTENDS Naturals, Sequences, FiniteSets, TLC, Json, IOUtils, SequencesExt

Trace == ndJsonDeserialize(IOEnv.TRACE_FILE)

VARIABLES i, queue, current, hst, hkey, pending, wjob, viol, div
vars == <<i, queue, current, hst, hkey, pending, wjob, viol, div>>

EmptyF == [x \in {} |-> {}]
Upd(f, k, v) == IF k \in DOMAIN f THEN [f EXCEPT ![k] = v] ELSE f @@ (k :> v)
Get(f, k, d) == IF k \in DOMAIN f THEN f[k] ELSE d
InQ(q, k) == \E j \in DOMAIN q : q[j] = k

Init == /\ i = 1 /\ queue = <<>> /\ current = "none" /\ hst = EmptyF /\ hkey = EmptyF
        /\ pending = {} /\ wjob = [k |-> "none", status |-> ""] /\ viol = {} /\ div = {}

Step ==
  /\ i <= Len(Trace)
  /\ LET e == Trace[i]
         fresh == i = 1 \/ Trace[i - 1].tid # e.tid
         q0 == IF fresh THEN <<>> ELSE queue
         c0 == IF fresh THEN "none" ELSE current
         s0 == IF fresh THEN EmptyF ELSE hst
         k0 == IF fresh THEN EmptyF ELSE hkey
         p0 == IF fresh THEN {} ELSE pending
         w0 == IF fresh THEN [k |-> "none", status |-> ""] ELSE wjob
         ev == e.ev
         h == e.h
         \* ---- the model's transition for this event
         q1 == IF ev = "put" THEN Append(q0, Get(k0, h, e.k))
               ELSE IF ev = "get" /\ q0 # <<>> THEN Tail(q0) ELSE q0
         c1 == IF ev = "get" /\ q0 # <<>> THEN Head(q0) ELSE IF ev = "clear" THEN "none" ELSE c0
         s1 == IF ev = "enter" THEN Upd(s0, h, "check")
               ELSE IF ev = "check" THEN Upd(s0, h, IF InQ(q0, Get(k0, h, "?")) THEN "skip" ELSE "put")
               ELSE IF ev \in {"put", "drop"} THEN Upd(s0, h, "idle") ELSE s0
         k1 == IF ev = "enter" THEN Upd(k0, h, e.k) ELSE k0
         \* ---- ghost: accepted and not yet followed by the start of an evaluation of that key
         p1 == IF ev = "enter" THEN p0 \cup {e.k}
               ELSE IF ev = "get" THEN p0 \ {e.k} ELSE p0
         w1 == IF ev = "get" THEN [k |-> e.k, status |-> ""]
               ELSE IF ev = "status" THEN [w0 EXCEPT !.status = e.o] ELSE w0
         \* ---- conformance of the real execution with the model
         dv == (IF ev = "put" /\ Get(s0, h, "") # "put" THEN {"put where the model drops"} ELSE {})
               \cup (IF ev = "drop" /\ Get(s0, h, "") # "skip" THEN {"drop where the model puts"} ELSE {})
               \cup (IF e.q # q1 THEN {"queue differs"} ELSE {})
               \cup (IF ev \in {"get", "clear", "quiescent"} /\ e.cur # c1 THEN {"current-job marker differs"} ELSE {})
               \cup (IF ev = "get" /\ (q0 = <<>> \/ Head(q0) # e.k) THEN {"dequeued job differs"} ELSE {})
         \* ---- the properties of C13 on the real events
         bad == (IF ev = "quiescent" /\ p1 # {} THEN {"C13.lost_event"} ELSE {})
                \cup (IF ev = "quiescent" /\ e.cur # "none" THEN {"C13.marker_not_cleared"} ELSE {})
                \cup (IF ev = "clear" /\ (e.d0.k # w0.k \/ e.d0.status = "" \/ e.d0.status # w0.status)
                      THEN {"C13.job_not_recorded"} ELSE {})
                \cup (IF ev = "worker_died" THEN {"C13.worker_died"} ELSE {})
     IN /\ queue' = q1 /\ current' = c1 /\ hst' = s1 /\ hkey' = k1 /\ pending' = p1 /\ wjob' = w1
        /\ viol' = viol \cup {<<e.tid, e.n, c>> : c \in bad}
        /\ div' = div \cup {<<e.tid, e.n, c>> : c \in dv}
        /\ i' = i + 1

Finish ==
  /\ i = Len(Trace) + 1
  /\ JsonSerialize(IOEnv.VIOL_FILE, [n |-> Len(Trace), viol |-> SetToSeq(viol), div |-> SetToSeq(div)])
  /\ i' = i + 1
  /\ UNCHANGED <<queue, current, hst, hkey, pending, wjob, viol, div>>

Next == Step \/ Finish
Spec == Init /\ [][Next]_vars
TraceAccepted == TLCGet("stats").diameter = Len(Trace) + 2
=============================================================================
