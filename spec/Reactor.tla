------------------------------ MODULE Reactor ------------------------------
(***************************************************************************)
(* C07 - who may switch options on through comments, at TOKEN level.       *)
(*                                                                         *)
(* A comment is [who, syn, kws, sep, lead, trail]:                         *)
(*   who   in {"author","admin","other","robot"} (the admin is never the   *)
(*         author here; "an admin who is the author" is who = "author" in  *)
(*         a configuration where the author is listed as admin),           *)
(*   syn   in {"at","atcolon","slash","plain"}: "@robot kw", "@robot: kw", *)
(*         "/kw /kw", or text that does not address the robot,             *)
(*   kws   1..3 keywords [k, arg], sep the separator between them,         *)
(*   lead  in {"", "ws", "text"}, trail in {"", "ws", "word"}.             *)
(* The module states the four implications of the property as the          *)
(* CONSTRAINTS an outcome must satisfy (not a functional specification).   *)
(***************************************************************************)
EXTENDS Naturals, Sequences, FiniteSets, TLC, Json, IOUtils, SequencesExt

Priv == {"bypass_peer_approval", "bypass_build_status"}
AuthorOnly == {"approve"}
PlainOpts == {"wait", "unanimity", "after_pull_request"}
Commands == {"help", "reset"}
Unknown == {"foobar"}
Words == Priv \cup AuthorOnly \cup PlainOpts \cup Commands \cup Unknown

Kw(k, a) == [k |-> k, arg |-> a]
\* keywords with their "=arg" variants
KwTokens == {Kw(k, "") : k \in Words} \cup {Kw("wait", "yes"), Kw("bypass_peer_approval", "off"),
             Kw("approve", "false"), Kw("after_pull_request", "1"), Kw("bypass_build_status", "1")}

(* the keywords a comment names, as the robot reads them: a trailing word is one more (unknown) keyword *)
Named(c) == c.kws \o (IF c.trail = "word" THEN <<Kw("thanks", "")>> ELSE <<>>)
Addressed(c) ==
  /\ c.syn # "plain"
  /\ c.lead # "text"                               \* text before the prefix: not addressed to the robot
  /\ (c.syn = "slash" => c.trail # "word")         \* second syntax: every keyword is slash-prefixed
IsCommandCall(c) == Named(c)[1].k \in Commands      \* the options pass leaves command calls alone
OptionComment(c) == Addressed(c) /\ ~ IsCommandCall(c)
Names(c, k) == \E j \in DOMAIN Named(c) : Named(c)[j].k = k

(* (3) an addressed option comment that names an unknown keyword, or a privileged / author-only    *)
(*     keyword from the wrong person, blocks the pull request                                       *)
Offending(c) ==
  \E j \in DOMAIN Named(c) :
     LET k == Named(c)[j].k
     IN \/ k \notin Priv \cup AuthorOnly \cup PlainOpts            \* unknown word, or a command after an option
        \/ k \in Priv /\ c.who # "admin"
        \/ k \in AuthorOnly /\ c.who # "author"
MustBlock(cs) == \E j \in DOMAIN cs : OptionComment(cs[j]) /\ Offending(cs[j])
(* (1) a privileged option may only take effect if an admin who is not the author wrote it *)
PrivAllowed(cs) == {k \in Priv : \E j \in DOMAIN cs : OptionComment(cs[j]) /\ cs[j].who = "admin" /\ Names(cs[j], k)}
(* (2) approve only if the author wrote it *)
ApproveAllowed(cs) == \E j \in DOMAIN cs : OptionComment(cs[j]) /\ cs[j].who = "author" /\ Names(cs[j], "approve")
(* (4) text not addressed to the robot never changes an option *)
AnyAddressed(cs) == \E j \in DOMAIN cs : Addressed(cs[j])

(***************************************************************************)
(* Enumeration.  SIZE selects the table: "one" (single comments, full),    *)
(* "two" and "three" (lists, reduced keyword sequences).                   *)
(***************************************************************************)
Seps == {" ", ", ", ",", ".", " - ", ":", ";", "|", "+"}
Who == {"author", "admin", "other"}
Syn == {"at", "atcolon", "slash", "plain"}
KwSeqs1 == {<<t>> : t \in KwTokens}
KwSeqs2 == {<<t, u>> : t \in KwTokens, u \in KwTokens}
KwSeqs3 == {<<Kw("wait", ""), t, u>> : t \in KwTokens, u \in {Kw("approve", ""), Kw("bypass_peer_approval", ""), Kw("foobar", "")}}
FullComments ==
  {[who |-> w, syn |-> s, kws |-> ks, sep |-> sp, lead |-> l, trail |-> tr] :
      w \in Who, s \in Syn, ks \in KwSeqs1 \cup KwSeqs2 \cup KwSeqs3, sp \in Seps,
      l \in {"", "ws", "text"}, tr \in {"", "ws", "word"}}
\* with a single keyword the separator is irrelevant
One == {c \in FullComments : Len(c.kws) > 1 \/ c.sep = " "}
SmallKws == {<<Kw("bypass_peer_approval", "")>>, <<Kw("approve", "")>>, <<Kw("wait", "")>>, <<Kw("foobar", "")>>,
             <<Kw("help", "")>>, <<Kw("reset", "")>>, <<Kw("approve", ""), Kw("bypass_build_status", "")>>,
             <<Kw("unanimity", ""), Kw("wait", "yes")>>, <<Kw("bypass_peer_approval", "off")>>,
             <<Kw("help", ""), Kw("bypass_peer_approval", "")>>}
RobotMsg == [who |-> "robot", syn |-> "plain", kws |-> <<Kw("wait", "")>>, sep |-> " ", lead |-> "", trail |-> ""]
Small == {[who |-> w, syn |-> s, kws |-> ks, sep |-> ", ", lead |-> l, trail |-> ""] :
            w \in Who, s \in {"at", "slash", "plain"}, ks \in SmallKws, l \in {"", "text"}} \cup {RobotMsg}
Tiny == {c \in Small : c.lead = "" /\ c.syn \in {"at", "plain"} /\ Len(c.kws) = 1} \cup {RobotMsg}

Case(cs) == [cs |-> cs, block |-> MustBlock(cs), priv |-> SetToSeq(PrivAllowed(cs)),
             approve |-> ApproveAllowed(cs), addressed |-> AnyAddressed(cs)]
Shard  == atoi(IOEnv.SHARD)
NShard == atoi(IOEnv.NSHARD)
Hash(c) == Len(c.kws) + (IF c.who = "author" THEN 1 ELSE IF c.who = "admin" THEN 2 ELSE 3)
           + (IF c.syn = "at" THEN 0 ELSE IF c.syn = "slash" THEN 5 ELSE 7) + (IF c.lead = "" THEN 0 ELSE 11)
ASSUME IOEnv.SIZE = "one" =>
  ndJsonSerialize(IOEnv.OUT_FILE, SetToSeq({Case(<<c>>) : c \in {d \in One : (Hash(d) + Len(d.sep) + Len(d.kws[1].k)) % NShard = Shard}}))
ASSUME IOEnv.SIZE = "two" =>
  ndJsonSerialize(IOEnv.OUT_FILE, SetToSeq({Case(<<c, d>>) : c \in {e \in Small : Hash(e) % NShard = Shard}, d \in Small}))
ASSUME IOEnv.SIZE = "three" =>
  ndJsonSerialize(IOEnv.OUT_FILE, SetToSeq({Case(<<c, d, e>>) : c \in {f \in Tiny : Hash(f) % NShard = Shard}, d \in Tiny, e \in Tiny}))

VARIABLE v
Init == v = 0
Next == v' = v
Spec == Init /\ [][Next]_v
=============================================================================
