---------------------------- MODULE QueueOracle ----------------------------
(***************************************************************************)
(* C05 - the queue selection rule, written from the property statement:    *)
(* "the pull requests selected for merge form a prefix of the queue in     *)
(* order of entry (each hotfix queue being independent), every destination *)
(* branch is moved to the queue commit of the newest selected pull request *)
(* that targets it, every one of those commits has a SUCCESSFUL build, and *)
(* no longer prefix has that property".                                    *)
(*                                                                         *)
(* TLC is used as an exhaustive enumerator/evaluator: for one cascade      *)
(* shape and one number of pull requests it enumerates EVERY destination   *)
(* assignment and EVERY status assignment and writes, per destination      *)
(* assignment, the vector of expected selections.  The harness             *)
(* (harness/checks/c05.py) builds the same queues for the real             *)
(* QueueCollection and compares case by case.                              *)
(*                                                                         *)
(* Shape: NDev development versions 1..NDev, StabAt in 0..NDev (0 = no     *)
(* stabilization branch, i = stabilization branch of version i), NHf.      *)
(* Status classes 0..NSt-1 with 0 = SUCCESSFUL.                            *)
(***************************************************************************)
EXTENDS Naturals, Sequences, FiniteSets, TLC, Json, IOUtils, SequencesExt, FiniteSetsExt

CONSTANTS NDev, StabAt, NHf, NPr, NSt      \* NHf in 0..2: number of hotfix branches (each with its own queue)

D(i) == <<"d", i>>
S(i) == <<"s", i>>
Hf(k) == <<"h", k>>
RECURSIVE HfsFrom(_)
HfsFrom(k) == IF k >= NHf THEN <<>> ELSE <<Hf(k)>> \o HfsFrom(k + 1)
RECURSIVE DevsFrom(_)
DevsFrom(i) == IF i > NDev THEN <<>> ELSE <<D(i)>> \o DevsFrom(i + 1)
RECURSIVE CascFrom(_)
CascFrom(i) == IF i > NDev THEN <<>>
               ELSE (IF StabAt = i THEN <<S(i)>> ELSE <<>>) \o <<D(i)>> \o CascFrom(i + 1)
Dests == CascFrom(1) \o HfsFrom(0)                              \* destination choices, in order
Targets(d) == IF d[1] = "h" THEN <<d>>
              ELSE IF d[1] = "s" THEN <<d>> \o DevsFrom(d[2]) ELSE DevsFrom(d[2])
OnVersion(d, v) == \E j \in DOMAIN Targets(d) : Targets(d)[j] = v

(* all destination assignments: sequences of length NPr over 1..Len(Dests) *)
Assignments == [1..NPr -> 1..Len(Dests)]

(* the queue commits of an assignment, in a fixed order: by PR, then by target position *)
RECURSIVE CommitsFrom(_, _)
CommitsFrom(a, p) ==
  IF p > NPr THEN <<>>
  ELSE [j \in DOMAIN Targets(Dests[a[p]]) |-> <<p, Targets(Dests[a[p]])[j]>>] \o CommitsFrom(a, p + 1)
Commits(a) == CommitsFrom(a, 1)
IndexOf(cs, c) == CHOOSE j \in DOMAIN cs : cs[j] = c

RECURSIVE Pow(_, _)
Pow(b, e) == IF e = 0 THEN 1 ELSE b * Pow(b, e - 1)
Digit(x, j) == (x \div Pow(NSt, j - 1)) % NSt          \* status class of commit j under code x

MainPrs(a) == SelectSeq([p \in 1..NPr |-> p], LAMBDA p : Dests[a[p]][1] # "h")
HfPrs(a, k) == SelectSeq([p \in 1..NPr |-> p], LAMBDA p : Dests[a[p]] = Hf(k))
Versions == {Dests[j] : j \in DOMAIN Dests}

\* prefix k of queue q (a sequence of PRs in order of entry) is good under status code x
Good(a, cs, x, q, k) ==
  \A v \in Versions :
     LET on == SelectSeq(SubSeq(q, 1, k), LAMBDA p : OnVersion(Dests[a[p]], v))
     IN on # <<>> => Digit(x, IndexOf(cs, <<on[Len(on)], v>>)) = 0
Longest(a, cs, x, q) == Max({k \in 0..Len(q) : Good(a, cs, x, q, k)})

\* expected selection, encoded: (length of the main-queue prefix) * 100 + (prefix of hotfix queue 0) * 10 + (of hotfix queue 1)
Expected(a, cs, x) == Longest(a, cs, x, MainPrs(a)) * 100 + Longest(a, cs, x, HfPrs(a, 0)) * 10 + Longest(a, cs, x, HfPrs(a, 1))

Line(a) ==
  LET cs == Commits(a)
      m == Len(cs)
  IN [dsts |-> [p \in 1..NPr |-> a[p]],
      m |-> m,
      res |-> [x \in 1..Pow(NSt, m) |-> Expected(a, cs, x - 1)]]

Shard  == atoi(IOEnv.SHARD)
NShard == atoi(IOEnv.NSHARD)
Mine == {a \in Assignments : (LET code == a[1] + (IF NPr > 1 THEN 7 * a[2] ELSE 0) + (IF NPr > 2 THEN 13 * a[3] ELSE 0)
                                           + (IF NPr > 3 THEN 29 * a[4] ELSE 0)
                              IN code % NShard = Shard)}

ASSUME ndJsonSerialize(IOEnv.OUT_FILE, SetToSeq({Line(a) : a \in Mine}))
ASSUME PrintT(<<"cases", Cardinality(Mine)>>)

VARIABLE x
Init == x = 0
Next == x' = x
Spec == Init /\ [][Next]_x
=============================================================================
