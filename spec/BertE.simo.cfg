SPECIFICATION Spec
CONSTANTS
  NV = 3
  StabV = {}
  HasHf = FALSE
  Absent0 = {}
  Admin = FALSE
  TrackRep = FALSE
  AlwaysW = FALSE
  AlwaysPRs = FALSE
  Cmds = {}
  Rewrites = FALSE
  NP = 3
  UseQueue = TRUE
  SkipQueue = FALSE
  Faults = FALSE
  FaultKinds = {"crash", "reject", "third"}
  MaxC = 40
  RepStatuses = {"SUCCESSFUL", "FAILED"}
  Atomic = TRUE
  ReportFine = FALSE
  AutoApprove = FALSE
  Opts = {"byp", "nooct", "mkw", "mkprs"}
  ReportOnce = FALSE
  MaxLevel = 100
  EmitJson = TRUE
  PruneOnlyOwned = FALSE
  PushOnlyChanged = FALSE
  AtomicPush = TRUE
  FixSelect = TRUE
  FixDirect = TRUE
CONSTRAINT Bound
VIEW View
CHECK_DEADLOCK FALSE
