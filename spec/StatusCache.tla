---------------------------- MODULE StatusCache ----------------------------
(***************************************************************************)
(* C17(b) - a green verdict is never downgraded.                           *)
(*                                                                         *)
(* host[<<c,k>>]: what the git host currently reports for commit c under   *)
(* build key k ("NONE" = nothing reported).  cache[k]: the bounded LRU     *)
(* cache of statuses kept per build key (git_host/cache.py, lru_cache.py): *)
(* a sequence of <<commit, state>>, least recently used first.             *)
(* Actions: HostSet (CI reports to the host), Webhook (a status event is   *)
(* delivered to Bert-E: server/webhook.py), Poll (get_build_status).       *)
(* Ghost seen: the (c,k) Bert-E has seen SUCCESSFUL.                        *)
(***************************************************************************)
EXTENDS Naturals, Sequences, FiniteSets, TLC

CONSTANTS Commits, BuildKeys, States, CacheSize, MaxSteps,
          PollAllKeys,   \* TRUE = the GitHub client: a poll that misses fetches the combined status of the commit
                         \* and stores the status of EVERY key in the cache (get_commit_status)
          GuardedStore   \* TRUE = that store never overwrites a cached SUCCESSFUL (repaired code)

VARIABLES host, cache, seen, answer, steps
vars == <<host, cache, seen, answer, steps>>

Idx(q, c) == {j \in DOMAIN q : q[j][1] = c}
InLru(q, c) == Idx(q, c) # {}
StateIn(q, c) == q[CHOOSE j \in Idx(q, c) : TRUE][2]
Without(q, c) == SelectSeq(q, LAMBDA e : e[1] # c)
\* LRUCache.get: a hit moves the entry to the most-recently-used end
Touch(q, c) == IF InLru(q, c) THEN Append(Without(q, c), <<c, StateIn(q, c)>>) ELSE q
\* LRUCache.set: replace and move to the end, or make room and append
RECURSIVE Trim(_, _)
Trim(q, n) == IF Len(q) > n THEN Trim(Tail(q), n) ELSE q
Put(q, c, s) == IF InLru(q, c) THEN Append(Without(q, c), <<c, s>>)
                ELSE Append(Trim(q, CacheSize - 1), <<c, s>>)

HostNow(h, c, k) == IF h[<<c, k>>] = "NONE" THEN "NOTSTARTED" ELSE h[<<c, k>>]

(* effect of a webhook status event on the cache *)
WebhookCache(q, c, s) ==
  LET q1 == Touch(q, c)
  IN IF InLru(q1, c) /\ StateIn(q1, c) = "SUCCESSFUL" THEN q1 ELSE Put(q1, c, s)
(* answer and effect of get_build_status *)
PollAnswer(q, h, c, k) ==
  IF InLru(q, c) /\ StateIn(q, c) = "SUCCESSFUL" THEN "SUCCESSFUL" ELSE HostNow(h, c, k)
PollCache(q, h, c, k) ==
  LET q1 == Touch(q, c)
  IN IF InLru(q1, c) /\ StateIn(q1, c) = "SUCCESSFUL" THEN q1
     ELSE IF h[<<c, k>>] = "NONE" THEN q1 ELSE Put(q1, c, h[<<c, k>>])

(* an entry that leaves the cache is forgotten: the guarantee lasts while it stays in the LRU *)
Keep(sn, ch) == {x \in sn : InLru(ch[x[2]], x[1])}
(* the property: what a poll must answer *)
MustAnswer(q, h, sn, c, k) ==
  IF <<c, k>> \in sn /\ InLru(q, c) THEN "SUCCESSFUL" ELSE HostNow(h, c, k)

Init == /\ host = [x \in Commits \X BuildKeys |-> "NONE"]
        /\ cache = [k \in BuildKeys |-> <<>>]
        /\ seen = {} /\ answer = [a |-> "", must |-> ""] /\ steps = 0
HostSet(c, k, s) ==
  /\ host' = [host EXCEPT ![<<c, k>>] = s]
  /\ answer' = [a |-> "", must |-> ""] /\ steps' = steps + 1
  /\ UNCHANGED <<cache, seen>>
Webhook(c, k, s) ==
  /\ cache' = [cache EXCEPT ![k] = WebhookCache(cache[k], c, s)]
  /\ seen' = Keep(IF s = "SUCCESSFUL" THEN seen \cup {<<c, k>>} ELSE seen, cache')
  /\ answer' = [a |-> "", must |-> ""] /\ steps' = steps + 1
  /\ UNCHANGED host
\* the whole cache after a poll
StoreOther(q, c, s) == IF GuardedStore /\ InLru(q, c) /\ StateIn(q, c) = "SUCCESSFUL" THEN q ELSE Put(q, c, s)
PollAll(ch, h, c, k) ==
  LET q1 == Touch(ch[k], c)
      green == InLru(q1, c) /\ StateIn(q1, c) = "SUCCESSFUL"
  IN IF green \/ ~ PollAllKeys THEN [ch EXCEPT ![k] = PollCache(ch[k], h, c, k)]
     ELSE [kk \in BuildKeys |->
             IF kk = k THEN PollCache(ch[k], h, c, k)
             ELSE IF h[<<c, kk>>] = "NONE" THEN ch[kk] ELSE StoreOther(ch[kk], c, h[<<c, kk>>])]
\* what a poll lets Bert-E see green: the answer itself and, for the GitHub client, every other key of the
\* combined status it fetched
PollSees(ch, h, c, k) ==
  (IF PollAnswer(ch[k], h, c, k) = "SUCCESSFUL" THEN {<<c, k>>} ELSE {})
  \cup (IF PollAllKeys /\ ~ (InLru(ch[k], c) /\ StateIn(ch[k], c) = "SUCCESSFUL")
        THEN {<<c, kk>> : kk \in {x \in BuildKeys : h[<<c, x>>] = "SUCCESSFUL"}} ELSE {})
Poll(c, k) ==
  /\ answer' = [a |-> PollAnswer(cache[k], host, c, k), must |-> MustAnswer(cache[k], host, seen, c, k)]
  /\ cache' = PollAll(cache, host, c, k)
  /\ seen' = Keep(seen \cup PollSees(cache, host, c, k), cache')
  /\ steps' = steps + 1
  /\ UNCHANGED host
Next == /\ steps < MaxSteps
        /\ \/ \E c \in Commits, k \in BuildKeys, s \in States : HostSet(c, k, s) \/ Webhook(c, k, s)
           \/ \E c \in Commits, k \in BuildKeys : Poll(c, k)
Spec == Init /\ [][Next]_vars

GreenNeverDowngraded == answer.a = answer.must
=============================================================================
