SPECIFICATION Spec
CONSTANTS
  Hooks = {h1, h2}
  Keys = {"a", "b"}
  NEv = 2
  Outcomes = {"silent", "template", "internal", "arbitrary"}
  DedupRunning = TRUE
INVARIANT NoLostEvent
INVARIANT MarkerCleared
INVARIANT DoneRecorded
PROPERTY EventuallyStarted
CHECK_DEADLOCK FALSE
