SPECIFICATION Spec
CONSTANTS
  Hooks = {h1, h2, h3}
  Keys = {"a", "b"}
  NEv = 2
  Outcomes = {"silent", "template", "internal", "arbitrary"}
  DedupRunning = FALSE
INVARIANT NoLostEvent
INVARIANT MarkerCleared
INVARIANT DoneRecorded
CHECK_DEADLOCK FALSE
