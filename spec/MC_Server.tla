---------------------------- MODULE MC_Server ----------------------------
(***************************************************************************)
(* Apalache wrapper for Server.tla: inductive invariant showing            *)
(* NoLostEvent for ANY number of delivered events and any queue content     *)
(* (3 request threads, 2 keys).                                            *)
(***************************************************************************)
EXTENDS Naturals, Sequences, FiniteSets, Apalache

Hooks == {"h1", "h2", "h3"}
Keys == {"a", "b"}
Outcomes == {"silent", "template", "internal", "arbitrary"}
DedupRunning == FALSE
MaxQ == 4

VARIABLES
  \* @type: Seq(Str);
  queue,
  \* @type: Str;
  current,
  \* @type: { k: Str, status: Str };
  done,
  \* @type: Str -> Str;
  hpc,
  \* @type: Str -> Str;
  hkey,
  \* @type: Str -> Int;
  hleft,
  \* @type: Str;
  wpc,
  \* @type: { k: Str, status: Str };
  wjob,
  \* @type: Str -> Bool;
  pending

\* NEv is left unconstrained: hleft is any natural number in the inductive invariant
NEv == 2
INSTANCE Server

TypeOK ==
  /\ \A i \in DOMAIN queue : queue[i] \in Keys
  /\ current \in Keys \cup {"none"}
  /\ done \in [k : Keys \cup {"none"}, status : Outcomes \cup {""}]
  /\ hpc \in [Hooks -> {"idle", "check", "put", "skip", "finished"}]
  /\ hkey \in [Hooks -> Keys]
  /\ hleft \in [Hooks -> 0..3]
  /\ wpc \in {"get", "run", "append", "clear"}
  /\ wjob \in [k : Keys \cup {"none"}, status : Outcomes \cup {""}]
  /\ pending \in [Keys -> BOOLEAN]

\* a pending key is waiting in the queue, or a request thread is about to check / put it
Covered(k) == InQueue(k) \/ \E h \in Hooks : hkey[h] = k /\ hpc[h] \in {"check", "put"}
IndInv ==
  /\ TypeOK
  /\ \A k \in Keys : pending[k] => Covered(k)
  /\ \A h \in Hooks : hpc[h] = "finished" => hleft[h] = 0
  /\ (wpc = "get") => current = "none"
  /\ (wpc # "get") => current = wjob.k /\ current # "none"
IndInit == queue = Gen(MaxQ) /\ current = Gen(1) /\ done = Gen(1) /\ hpc = Gen(3) /\ hkey = Gen(3) /\ hleft = Gen(3)
           /\ wpc = Gen(1) /\ wjob = Gen(1) /\ pending = Gen(2) /\ IndInv
Safety == NoLostEvent /\ MarkerCleared
============================================================================
