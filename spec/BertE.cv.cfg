SPECIFICATION Spec
CONSTANTS
  NV = 2
  StabV = {}
  HasHf = FALSE
  Absent0 = {}
  Admin = FALSE
  TrackRep = TRUE
  AlwaysW = TRUE
  AlwaysPRs = TRUE
  Cmds = {"reset", "force_reset"}
  Rewrites = TRUE
  NP = 1
  UseQueue = TRUE
  SkipQueue = FALSE
  Faults = FALSE
  FaultKinds = {"crash", "reject", "third"}
  MaxC = 9
  RepStatuses = {"SUCCESSFUL"}
  Atomic = TRUE
  ReportFine = FALSE
  AutoApprove = FALSE
  Opts = {"wait"}
  ReportOnce = TRUE
  MaxLevel = 10
  EmitJson = FALSE
  PruneOnlyOwned = FALSE
  PushOnlyChanged = FALSE
  AtomicPush = TRUE
  FixSelect = TRUE
  FixDirect = TRUE
CONSTRAINT Bound
VIEW View
INVARIANT C01_Incl
INVARIANT C02_AllOrNone
INVARIANT C05_Select
INVARIANT C19_Children
PROPERTY C03_Green
PROPERTY C08_FF
PROPERTY C08_Foreign
PROPERTY C20_EntryFate
PROPERTY C19_DeclineCleans
PROPERTY C06_Gate
PROPERTY C04_Gate
PROPERTY C15_ManualKept
PROPERTY C15_OwnOnly
PROPERTY C15_LossyRefuses
PROPERTY C10_CmdConsumed
PROPERTY C10_Converge
CHECK_DEADLOCK FALSE
