SPECIFICATION Spec
CONSTANTS
  NV = 3
  StabV = {}
  HasHf = FALSE
  Absent0 = {}
  Admin = FALSE
  TrackRep = FALSE
  AlwaysW = TRUE
  AlwaysPRs = TRUE
  Cmds = {"reset", "force_reset"}
  Rewrites = TRUE
  NP = 2
  UseQueue = TRUE
  SkipQueue = FALSE
  Faults = FALSE
  FaultKinds = {"crash", "reject", "third"}
  MaxC = 40
  RepStatuses = {"SUCCESSFUL", "FAILED"}
  Atomic = TRUE
  ReportFine = FALSE
  AutoApprove = TRUE
  Opts = {"byp", "wait", "unwait", "nooct", "after"}
  ReportOnce = FALSE
  MaxLevel = 100
  EmitJson = TRUE
  PruneOnlyOwned = FALSE
  PushOnlyChanged = FALSE
  AtomicPush = TRUE
  FixSelect = TRUE
  FixDirect = TRUE
CONSTRAINT Bound
VIEW View
CHECK_DEADLOCK FALSE
